//! C12 — sequences: accepted defseq tables are unambiguous; a typed sequence fires its virtual key
//! exactly once and leaves sequence mode; failing continuations / timeouts fire nothing; hidden
//! modes press none of the typed keys; visible-backspaced sends one backspace per character.
//!
//! Oracle (a), parser half: an independent expansion of every table into what the user types
//! (press tokens = key + modifiers held; `O-(..)` groups as sets that must overlap) and a pairwise
//! prefix check under the documented matching rules; only "accepted => prefix-free" is judged.
//! Oracle (b), runtime half: every virtual key is a macro typing a unique witness key; counts, mode
//! exit, suppression and backspace arithmetic are read from the OS stream (plus the public
//! `sequence_state.is_active()` at quiescent points for the modes where the stream cannot tell).
//!
//! Two table families. The general family (plain keys, chorded members, `O-(..)` groups) is typed
//! canonically. The modifier family lists bare modifier keys as ordinary members (`(lsft a b)`, the
//! guide's example for `sequence-backtrack-modcancel`) next to chorded members and is typed in
//! several ways: the bare modifier tapped, kept down over the following keys or to the end, a
//! chord's modifier released late (over the next member), and with
//! an unrelated modifier (pressed before the leader) still down while the first key / the first
//! keys / everything is typed; under `sequence-backtrack-modcancel` absent (= yes), `yes` and `no`.
//! What must happen is decided by the documented rule: each press is seen with the modifiers down
//! at that moment; with `yes` a press that does not match as seen is tried again without
//! modifiers, with `no` it is not (so `(lsft a b)` can never fire). Typings for which that rule
//! leaves a choice (another sequence also matches the presses, a part of them, or begins with them;
//! the outcome would depend on the order alternatives are tried in) are counted and not judged.
//!
//! OS auto-repeat events (`KeyValue::Repeat`, sim syntax `r:<key>`). Both families also type every
//! judged sequence with repeat events in the history: one typed key (plain key, chord modifier,
//! bare modifier, key of an `O-(..)` group) stays down a little longer and is repeated 1-3 times
//! after its press was consumed and before the next key, in complete typings (any press but the
//! completing one), before the foreign key and during the silence of a timeout scenario; plus stray
//! repeats of keys that are not down (a key that is never pressed, the released leader key, a typed
//! key that was released again) and of the unrelated modifier held since before the leader. These
//! scenarios go through the whole oracle above (a repeat is not a typed key: it neither advances,
//! fails nor prolongs the sequence), and each repeat event is judged by what was written to the OS
//! while it was handled: in the hidden modes a repeat of a held typed key writes nothing while the
//! sequence is in progress (the key was never pressed at the OS, so a forwarded repeat is a press of
//! it); in every mode a repeat of a key that is not down writes nothing. In visible-backspaced the
//! typed key is down at the OS; whether its repeats are forwarded, and how many backspaces are due
//! when they were, is not decided by the statement: counted, and the backspace count is not judged
//! for a typing in which a repeat of a character key was forwarded.
//!
//! Echo family (c12_echo.rs; general-family tables, sldr and sequence-action leaders, all three
//! input modes). The tables are typed once more with virtual keys whose own output contains keys of
//! the sequence: `(macro <witness> k1 .. kn)` (every character key of the sequence), `(macro k
//! <witness>)`, `(macro <witness> 15 k)`, the bare key `k`, `(multi <witness> k)`, k = the last
//! character key listed (3 in 4) or any other. The typing is complete, and the keys still down
//! after the completing press stay down for 0 / 1 / 2 / 3 / 6 / 12 / 30 / 60 ticks (an ordinary
//! keystroke lasts tens of ms), in tables without O-(..) groups half of the time with roll-over (a
//! character key is released only after the next key was pressed). Judged at the OS: the watched
//! keys (all witnesses, all character keys) pressed after the tick that consumed the completing
//! press and before the probe key are exactly what one tap of the virtual key writes (macros: in
//! that order), each is released again before the probe, the hidden modes pressed no typed key up
//! to completion, visible-backspaced sent one backspace per character, the probe key is output
//! once and sequence mode is off at the end. Counters record how often a typed key was written by
//! the action while that very key was physically down.

#[path = "c12_model.rs"]
mod model;
#[path = "c12_echo.rs"]
mod echo;

use crate::core::rng::Rng;
use crate::core::sim::{code_name, osc, render_hist, Ev, Out, OutKind, Sim};
use crate::core::{CaseOut, Check, Ctx};
use model::*;
use serde_json::{json, Value};

pub struct C12Check;
pub static C12: C12Check = C12Check;

const FOREIGN: &str = "z";
const PROBE: &str = "y";
const LEADER_KEY: &str = "0";
/// a key that is never pressed in any history (only ever the subject of a stray auto-repeat event)
const NEVER: &str = "x";

#[derive(Clone, Copy, Debug, PartialEq, Eq)]
enum Mode {
    HiddenSuppressed,
    HiddenDelayType,
    VisibleBackspaced,
}
impl Mode {
    fn name(self) -> &'static str {
        match self {
            Mode::HiddenSuppressed => "hidden-suppressed",
            Mode::HiddenDelayType => "hidden-delay-type",
            Mode::VisibleBackspaced => "visible-backspaced",
        }
    }
    fn hidden(self) -> bool {
        self != Mode::VisibleBackspaced
    }
}
#[derive(Clone, Copy, Debug, PartialEq, Eq)]
enum Leader {
    Sldr,
    SeqAction,
    AlwaysOn,
}
impl Leader {
    fn name(self) -> &'static str {
        match self {
            Leader::Sldr => "sldr",
            Leader::SeqAction => "sequence-action",
            Leader::AlwaysOn => "always-on",
        }
    }
}

const COMBOS: [(Mode, Leader); 8] = [
    (Mode::HiddenSuppressed, Leader::Sldr),
    (Mode::HiddenDelayType, Leader::Sldr),
    (Mode::VisibleBackspaced, Leader::Sldr),
    (Mode::HiddenSuppressed, Leader::SeqAction),
    (Mode::HiddenDelayType, Leader::SeqAction),
    (Mode::VisibleBackspaced, Leader::SeqAction),
    (Mode::HiddenDelayType, Leader::AlwaysOn),
    (Mode::VisibleBackspaced, Leader::AlwaysOn),
];

fn config_text(table: &Table, mode: Mode, leader: Leader, t: u64) -> String {
    let mut s = config_head(table, mode, leader, t);
    // with the default sequence-backtrack-modcancel a key typed while a modifier is held may also
    // match a sequence that lists it without the modifier; the guide does not specify that matching
    // precisely enough to model, so tables with chorded members are run with it switched off
    if table.has_chorded_members() {
        s = s.replacen("(defcfg ", "(defcfg sequence-backtrack-modcancel no ", 1);
    }
    s
}

fn config_head(table: &Table, mode: Mode, leader: Leader, t: u64) -> String {
    let mut s = String::new();
    let other_mode = match mode {
        Mode::HiddenSuppressed => Mode::VisibleBackspaced,
        Mode::HiddenDelayType => Mode::HiddenSuppressed,
        Mode::VisibleBackspaced => Mode::HiddenDelayType,
    };
    match leader {
        Leader::Sldr => s.push_str(&format!("(defcfg process-unmapped-keys yes sequence-timeout {t} sequence-input-mode {})\n(defsrc {LEADER_KEY})\n(deflayer base sldr)\n", mode.name())),
        // the action's own timeout and mode must override the global ones
        Leader::SeqAction => s.push_str(&format!("(defcfg process-unmapped-keys yes sequence-timeout {} sequence-input-mode {})\n(defsrc {LEADER_KEY})\n(deflayer base (sequence {t} {}))\n", t * 3 + 7, other_mode.name(), mode.name())),
        Leader::AlwaysOn => s.push_str(&format!("(defcfg process-unmapped-keys yes sequence-timeout {t} sequence-input-mode {} sequence-always-on yes)\n(defsrc {LEADER_KEY})\n(deflayer base {LEADER_KEY})\n", mode.name())),
    }
    s.push_str(&table.text());
    s
}

fn tn(k: &str) -> String {
    code_name(osc(k))
}

// ---------------------------------------------------------------- scenarios

#[derive(Clone, Debug)]
enum Kind {
    /// whole ordering typed; `slow_at` = Some((press index, gap)) stretches one inter-press gap
    Complete,
    /// `cut` presses typed, everything released, then the foreign key
    PrefixForeign { cut: usize },
    /// `cut` presses typed (0 = only the leader), then silence of `gap` ticks measured from the arrival of
    /// the last press (or of the leader press)
    Timeout { cut: usize, gap: u64 },
}

struct Scenario {
    kind: Kind,
    hist: Vec<Ev>,
    /// (arrival tick, key name as printed in the trace) of every typed press, in order
    presses: Vec<(u64, String)>,
    /// tick in which each typed press is consumed
    press_proc: Vec<u64>,
    /// tick at which `is_active` is sampled (just before the probe key)
    sample_at: u64,
    /// arrival of the event that makes the sequence fail (foreign key) if any; `is_active` is also
    /// sampled just before it
    fail_at: Option<u64>,
    /// tick at which the sequence must still be in progress (failing scenarios): after the last typed
    /// press was processed, before the foreign key / long before the timeout
    mid_sample_at: Option<u64>,
    hold_through: bool,
    /// OS auto-repeat events of the history, in order
    reps: Vec<RepEv>,
}

/// what an injected auto-repeat event is a repeat of
#[derive(Clone, Copy, Debug, PartialEq, Eq)]
enum RepClass {
    /// a key typed as part of the sequence, still held, its press already consumed, the sequence
    /// still in progress
    HeldTyped,
    /// a key typed as part of the sequence and released again (release consumed)
    ReleasedTyped,
    /// the leader key, released again
    LeaderReleased,
    /// a key that is not part of any sequence and was never pressed
    NeverPressed,
    /// a modifier that is not part of the sequence, pressed before the leader and still held
    HeldUnrelated,
}

#[derive(Clone, Debug)]
struct RepEv {
    at: u64,
    key: String,
    class: RepClass,
}

/// where auto-repeat events go in a typing
#[derive(Clone, Debug)]
struct RepPlan {
    /// index of the typed press whose key is kept down a little longer and repeated `n` times
    /// (first repeat `delta` ticks after the press was consumed, then `gaps` apart)
    hold: Option<usize>,
    n: usize,
    delta: u64,
    gaps: [u64; 4],
    /// a repeat event of a key that is not down, or of the unrelated held modifier, injected just
    /// before typed press number `.0` (after everything before it has been consumed); `.1` selects
    /// among the keys available at that point
    stray: Option<(usize, u64)>,
}

struct Obs {
    /// OS outputs written while each auto-repeat event of the history was handled
    rep_outs: Vec<Vec<Out>>,
    trace: Vec<Out>,
    active_at_sample: bool,
    active_before_fail: bool,
    active_at_end: bool,
}

fn run(cfg: &str, sc: &Scenario) -> Result<Obs, String> {
    let mut sim = Sim::new(cfg)?;
    let mut active_at_sample = false;
    let mut active_before_fail = false;
    let mut sampled = false;
    let mut sampled2 = false;
    let mut rep_outs: Vec<Vec<Out>> = vec![];
    for e in &sc.hist {
        match e {
            Ev::T(n) => {
                for _ in 0..*n {
                    if !sampled && sim.now == sc.sample_at {
                        active_at_sample = sim.k.sequence_state.is_active();
                        sampled = true;
                    }
                    if !sampled2 && Some(sim.now) == sc.mid_sample_at {
                        active_before_fail = sim.k.sequence_state.is_active();
                        sampled2 = true;
                    }
                    sim.tick();
                }
            }
            other => {
                if !sampled && sim.now == sc.sample_at {
                    active_at_sample = sim.k.sequence_state.is_active();
                    sampled = true;
                }
                if !sampled2 && Some(sim.now) == sc.mid_sample_at {
                    active_before_fail = sim.k.sequence_state.is_active();
                    sampled2 = true;
                }
                sim.apply(other);
                if let Ev::Rep(_) = other {
                    rep_outs.push(sim.last().to_vec());
                }
            }
        }
    }
    let active_at_end = sim.k.sequence_state.is_active();
    Ok(Obs { rep_outs, trace: sim.normalized(), active_at_sample, active_before_fail, active_at_end })
}

struct Sched {
    t: u64,
    /// tick in which the most recent event is consumed (kanata takes one queued event per tick)
    proc: u64,
    evs: Vec<(u64, Ev)>,
}
impl Sched {
    fn at(&mut self, t: u64, e: Ev) {
        self.evs.push((t, e));
        self.t = t;
        self.proc = t.max(self.proc) + 1;
    }
    fn after(&mut self, gap: u64, e: Ev) {
        let t = self.t + gap;
        self.at(t, e);
    }
    /// an auto-repeat event: handled at once when it arrives, never queued
    fn rep(&mut self, t: u64, e: Ev) {
        self.evs.push((t, e));
        self.t = t;
    }
    fn hist(&self, end: u64) -> Vec<Ev> {
        let mut h = vec![];
        let mut now = 0u64;
        for (t, e) in &self.evs {
            if *t > now {
                h.push(Ev::T((*t - now) as u32));
                now = *t;
            }
            h.push(e.clone());
        }
        if end > now {
            h.push(Ev::T((end - now) as u32));
        }
        h
    }
}

/// Build the event history for typing `ord` (one ordering of one sequence).
fn build(ord: &[El], kind: Kind, leader: Leader, timeout: u64, hold_through: bool, rng: &mut Rng) -> Scenario {
    build_steps(&user_steps(ord, hold_through), None, kind, leader, timeout, hold_through, rng)
}

/// `steps`: what the user does after the leader; `pre`: a key pressed before the leader (released by
/// one of the steps)
fn build_steps(steps: &[(bool, String)], pre: Option<&str>, kind: Kind, leader: Leader, timeout: u64, hold_through: bool, rng: &mut Rng) -> Scenario {
    let (sc, _) = build_inner(steps, pre, kind.clone(), leader, timeout, hold_through, rng, false, None);
    // "within the timeout": every press must be consumed < T after the previous one (or the leader);
    // events injected with zero gap are consumed one per tick, so consumption times are used, with
    // one tick of slack
    let ok = match kind {
        Kind::Complete => max_press_gap(&sc, leader) + 1 < timeout,
        _ => true,
    };
    if ok {
        sc
    } else {
        build_inner(steps, pre, kind, leader, timeout, hold_through, rng, true, None).0
    }
}

/// The same typing with OS auto-repeat events in it (`rp`). None if the repeats do not fit into the
/// schedule the scenario kind prescribes (the scenario is then not run at all).
fn build_steps_rep(steps: &[(bool, String)], pre: Option<&str>, kind: Kind, leader: Leader, timeout: u64, rp: &RepPlan, rng: &mut Rng) -> Option<Scenario> {
    // every press (and the foreign key) must be consumed < T after the previous press / the leader,
    // except across the one position a timeout scenario stretches on purpose
    let fits = |sc: &Scenario| {
        let skip = match kind {
            Kind::Timeout { cut, .. } => Some(cut),
            _ => None,
        };
        let mut last = if leader == Leader::AlwaysOn { None } else { Some(4u64) };
        for (i, t) in sc.press_proc.iter().enumerate() {
            if let Some(l) = last {
                if Some(i) != skip && *t - l + 1 >= timeout {
                    return false;
                }
            }
            last = Some(*t);
        }
        match (sc.fail_at, last) {
            (Some(f), Some(l)) => f + 1 - l + 1 < timeout,
            _ => true,
        }
    };
    let (sc, ok) = build_inner(steps, pre, kind.clone(), leader, timeout, false, rng, false, Some(rp));
    if ok && fits(&sc) && !sc.reps.is_empty() {
        return Some(sc);
    }
    let (sc, ok) = build_inner(steps, pre, kind.clone(), leader, timeout, false, rng, true, Some(rp));
    if ok && fits(&sc) && !sc.reps.is_empty() {
        Some(sc)
    } else {
        None
    }
}

/// Auto-repeat events for a typing of which `n_typed` presses are typed (`completes`: the last of
/// them completes the sequence, so only the earlier ones are held while the sequence is in progress).
fn rep_plan(n_typed: usize, completes: bool, rng: &mut Rng) -> RepPlan {
    let n_hold = if completes { n_typed.saturating_sub(1) } else { n_typed };
    let hold = if n_hold == 0 {
        None
    } else if rng.coin() {
        // the key that is down while the user waits: the last one typed
        Some(n_hold - 1)
    } else {
        Some(rng.usize(n_hold))
    };
    let n = 1 + rng.usize(3);
    let delta = rng.below(3);
    let gaps = [0, 1 + rng.below(2), 1 + rng.below(2), 1];
    let stray = if hold.is_none() || rng.chance(2, 3) { Some((rng.usize(n_hold + 1), rng.next_u64())) } else { None };
    RepPlan { hold, n, delta, gaps, stray }
}

fn max_press_gap(sc: &Scenario, leader: Leader) -> u64 {
    let mut last = if leader == Leader::AlwaysOn { None } else { Some(4u64) };
    let mut m = 0;
    for t in &sc.press_proc {
        if let Some(l) = last {
            m = m.max(*t - l);
        }
        last = Some(*t);
    }
    m
}

fn build_inner(steps: &[(bool, String)], pre: Option<&str>, kind: Kind, leader: Leader, timeout: u64, hold_through: bool, rng: &mut Rng, tight: bool, rp: Option<&RepPlan>) -> (Scenario, bool) {
    let mut sched_ok = true;
    let mut reps: Vec<RepEv> = vec![];
    // every key pressed so far after the leader
    let mut typed_so_far: Vec<String> = vec![];
    let n_presses = steps.iter().filter(|s| s.0).count();
    let mut sc = Sched { t: 0, proc: 0, evs: vec![] };
    let lk = osc(LEADER_KEY);
    let mut leader_arrival = 3u64;
    if let Some(k) = pre {
        sc.at(1, Ev::P(osc(k)));
    }
    if leader != Leader::AlwaysOn {
        sc.at(3, Ev::P(lk));
        sc.after(1, Ev::R(lk));
    } else {
        leader_arrival = 0;
        sc.t = 4;
    }
    let (cut, slow): (usize, Option<(usize, u64)>) = match &kind {
        Kind::Complete => (n_presses, None),
        Kind::PrefixForeign { cut } => (*cut, None),
        Kind::Timeout { cut, gap } => {
            if *gap < timeout {
                (n_presses, Some((*cut, *gap)))
            } else {
                (*cut, None)
            }
        }
    };
    let mut presses: Vec<(u64, String)> = vec![];
    let mut press_proc: Vec<u64> = vec![];
    let mut held: Vec<String> = pre.iter().map(|k| k.to_string()).collect();
    let mut last_press_arrival = leader_arrival;
    let exact = tight || !matches!(kind, Kind::Complete);
    let mut np = 0usize;
    for (is_press, key) in steps.iter() {
        if *is_press {
            if let Some((sp, sel)) = rp.and_then(|r| r.stray) {
                if sp == np {
                    // candidates: keys that are not down at the OS whatever the input mode, and the
                    // unrelated modifier held since before the leader
                    let mut cands: Vec<(String, RepClass)> = vec![(NEVER.to_string(), RepClass::NeverPressed)];
                    if leader != Leader::AlwaysOn {
                        cands.push((LEADER_KEY.to_string(), RepClass::LeaderReleased));
                    }
                    for k in &typed_so_far {
                        if !held.contains(k) && !cands.iter().any(|c| &c.0 == k) {
                            cands.push((k.clone(), RepClass::ReleasedTyped));
                            cands.push((k.clone(), RepClass::ReleasedTyped));
                        }
                    }
                    if let Some(k) = pre {
                        if held.iter().any(|h| h == k) {
                            cands.push((k.to_string(), RepClass::HeldUnrelated));
                        }
                    }
                    let (k, class) = cands[(sel % cands.len() as u64) as usize].clone();
                    // after every earlier event has been consumed
                    let rt = sc.t.max(sc.proc);
                    sc.rep(rt, Ev::Rep(osc(&k)));
                    reps.push(RepEv { at: rt, key: tn(&k), class });
                }
            }
            if np == cut {
                break;
            }
            let t = match slow {
                Some((i, g)) if i == np => {
                    // the stretched press must arrive exactly then and be consumed in the next tick
                    if last_press_arrival + g < sc.t || sc.proc > last_press_arrival + g {
                        sched_ok = false;
                    }
                    last_press_arrival + g
                }
                _ => sc.t + if tight { 1 } else if exact { 1 + rng.below(2) } else { *rng.pick(&[0u64, 1, 1, 2, 3]) },
            };
            let t = t.max(sc.t);
            sc.at(t, Ev::P(osc(key)));
            presses.push((t, tn(key)));
            press_proc.push(sc.proc);
            held.push(key.clone());
            typed_so_far.push(key.clone());
            last_press_arrival = t;
            if let Some(r) = rp {
                if r.hold == Some(np) {
                    // the key stays down and the OS starts repeating it: the events arrive once the
                    // press has been consumed, before anything else is typed
                    let mut rt = sc.proc.max(sc.t) + if tight { 0 } else { r.delta };
                    for i in 0..r.n {
                        if i > 0 {
                            rt += if tight { 1 } else { r.gaps[i.min(3)] };
                        }
                        sc.rep(rt, Ev::Rep(osc(key)));
                        reps.push(RepEv { at: rt, key: tn(key), class: RepClass::HeldTyped });
                    }
                    // a timeout scenario: all of it well before the timeout can have elapsed
                    if rt + 2 > t + timeout {
                        sched_ok = false;
                    }
                }
            }
            np += 1;
        } else {
            sc.after(if exact { 1 } else { *rng.pick(&[0u64, 1, 1, 2]) }, Ev::R(osc(key)));
            held.retain(|k| k != key);
        }
    }
    // release whatever is still held (cut scenarios)
    for k in held.iter().rev() {
        sc.after(1, Ev::R(osc(k)));
    }
    let mut fail_at = None;
    let mut mid_sample_at = None;
    match &kind {
        Kind::Complete => {}
        Kind::PrefixForeign { .. } => {
            sc.after(2, Ev::P(osc(FOREIGN)));
            fail_at = Some(sc.t);
            mid_sample_at = Some(sc.t);
            sc.after(2, Ev::R(osc(FOREIGN)));
        }
        Kind::Timeout { gap, .. } => {
            if *gap >= timeout {
                // nothing until exactly `gap` ticks after the arrival of the last press
                mid_sample_at = Some(sc.t.max(last_press_arrival + 2));
                let t = last_press_arrival + gap;
                if sc.t + 2 > last_press_arrival + timeout {
                    sched_ok = false;
                }
                sc.t = sc.t.max(t);
                if sc.t != t {
                    // cannot happen with the timeouts used (>= 10) but never judge a wrong schedule
                    sc.t = t.max(sc.t);
                }
            }
        }
    }
    // let the virtual key's macro finish, then probe
    let settle = if matches!(kind, Kind::Timeout { gap, .. } if gap >= timeout) { 0 } else { 12 };
    let sample_at = sc.t.max(sc.proc) + settle;
    sc.at(sample_at, Ev::P(osc(PROBE)));
    sc.after(2, Ev::R(osc(PROBE)));
    let end = sc.t + 15;
    (Scenario { kind, hist: sc.hist(end), presses, press_proc, sample_at, fail_at, mid_sample_at, hold_through, reps }, sched_ok)
}

/// Scenarios with OS auto-repeat events for one typing that is expected to fire: the complete
/// typing (`with_complete`), and (`with_failing`) one failing variant (cut + foreign key, or one
/// position stretched to T-1 / T / T+1).
fn rep_scenarios(steps: &[(bool, String)], pre: Option<&str>, leader: Leader, timeout: u64, with_complete: bool, with_failing: bool, rng: &mut Rng) -> Vec<Scenario> {
    let n_presses = steps.iter().filter(|s| s.0).count();
    let mut scs = vec![];
    if with_complete {
        let rp = rep_plan(n_presses, true, rng);
        scs.extend(build_steps_rep(steps, pre, Kind::Complete, leader, timeout, &rp, rng));
    }
    if with_failing {
        let min_cut = if leader == Leader::AlwaysOn || n_presses > 1 { 1 } else { 0 };
        if min_cut < n_presses {
            let cut = min_cut + rng.usize(n_presses - min_cut);
            let kind = if rng.coin() { Kind::PrefixForeign { cut } } else { Kind::Timeout { cut, gap: timeout - 1 + rng.below(3) } };
            let completes = matches!(kind, Kind::Timeout { gap, .. } if gap < timeout);
            let rp = rep_plan(if completes { n_presses } else { cut }, completes, rng);
            scs.extend(build_steps_rep(steps, pre, kind, leader, timeout, &rp, rng));
        }
    }
    scs
}

fn downs(trace: &[Out], name: &str) -> Vec<u64> {
    trace.iter().filter(|o| o.kind == OutKind::Down && o.name == name).map(|o| o.at).collect()
}

struct Judge<'a> {
    out: &'a mut CaseOut,
    table: &'a Table,
    cfg: &'a str,
    mode: Mode,
    leader: Leader,
    timeout: u64,
    /// structural class of the typing in the modifier family ("" in the plain / overlap family); appended to the signature
    fam: &'static str,
}

/// keys whose presses the matcher reports as their left-hand twin
fn is_right_hand_twin(n: &str) -> bool {
    matches!(n, "RShift" | "RCtrl" | "RGui")
}
const RIGHT_HAND: &str = "C12:bare-right-hand-modifier-member-never-matches";

impl<'a> Judge<'a> {
    fn witness(&self, si: usize, ord: &[El], sc: &Scenario, obs: &Obs, extra: Value) -> Value {
        json!({
            "config": self.cfg,
            "sequence": self.table.seqs[si].text(),
            "typed_ordering": seq_text(ord),
            "scenario": format!("{:?}", sc.kind),
            "overlap_keys_held_through_next_key": sc.hold_through,
            "history": render_hist(&sc.hist),
            "observed": obs.trace.iter().map(|o| o.short()).collect::<Vec<_>>(),
            "sequence_active_before_probe": obs.active_at_sample,
            "auto_repeat_events": sc.reps.iter().enumerate().map(|(i, r)| json!({"at": r.at, "key": r.key, "what": format!("{:?}", r.class), "os_output": obs.rep_outs.get(i).map(|o| o.iter().map(|x| x.short()).collect::<Vec<_>>())})).collect::<Vec<_>>(),
            "expected": extra,
        })
    }

    /// OS auto-repeat events in the history. Hidden modes: a repeat of a typed key that is held
    /// while the sequence is in progress must not reach the OS (the key was never pressed there; a
    /// forwarded repeat is a key-down of it). Any mode: a repeat of a key that is not down (never
    /// pressed, or released again) produces nothing. visible-backspaced, typed key held: the
    /// statement does not say whether the repeat is forwarded; counted only.
    fn judge_repeats(&mut self, sc: &Scenario, obs: &Obs, v: &mut Vec<(String, String, Value)>) {
        let mode = self.mode;
        for (i, r) in sc.reps.iter().enumerate() {
            let Some(outs) = obs.rep_outs.get(i) else { continue };
            self.out.inc("repeat_events");
            let shown: Vec<String> = outs.iter().map(|o| o.short()).collect();
            match r.class {
                RepClass::HeldTyped => {
                    self.out.inc(if is_mod_name(&r.key) { "repeat_events_of_held_typed_modifier_key" } else { "repeat_events_of_held_typed_character_key" });
                    if mode.hidden() {
                        if outs.is_empty() {
                            self.out.inc(match mode {
                                Mode::HiddenSuppressed => "hidden_suppressed_repeats_of_held_typed_key_silent",
                                _ => "hidden_delay_type_repeats_of_held_typed_key_silent",
                            });
                        } else {
                            v.push(("C12:hidden-mode-forwarded-repeat-of-typed-key".into(), format!("{} wrote {shown:?} to the OS for an auto-repeat event of typed key {} while the sequence was in progress", mode.name(), r.key), json!({"os_output_of_repeat_event": [], "repeat_event_at": r.at})));
                        }
                    } else {
                        self.out.inc("visible_repeat_events_of_held_typed_key");
                        self.out.inc(if outs.is_empty() { "visible_repeats_of_held_typed_key_not_forwarded" } else { "visible_repeats_of_held_typed_key_forwarded" });
                    }
                }
                RepClass::ReleasedTyped | RepClass::LeaderReleased | RepClass::NeverPressed => {
                    if outs.is_empty() {
                        self.out.inc(match r.class {
                            RepClass::ReleasedTyped => "repeats_of_released_typed_key_silent",
                            RepClass::LeaderReleased => "repeats_of_released_leader_key_silent",
                            _ => "repeats_of_never_pressed_key_silent",
                        });
                    } else {
                        v.push(("C12:repeat-of-key-not-down-produced-output".into(), format!("an auto-repeat event of {} ({:?}, not down) during sequence input wrote {shown:?} to the OS ({})", r.key, r.class, mode.name()), json!({"os_output_of_repeat_event": [], "repeat_event_at": r.at})));
                    }
                }
                RepClass::HeldUnrelated => {
                    self.out.inc("repeat_events_of_unrelated_held_modifier");
                    self.out.inc(if outs.is_empty() { "repeats_of_unrelated_held_modifier_dropped" } else { "repeats_of_unrelated_held_modifier_forwarded" });
                }
            }
        }
    }

    /// `si`: index of the typed sequence, `ord`: the ordering typed, `shadow`: sequences that put the
    /// table into the structural class of known finding #21 with respect to this ordering
    fn judge(&mut self, si: usize, ord: &[El], sc: &Scenario, obs: &Obs, shadow: &[usize], modded: &[usize]) {
        // (a table can be in both classes; the first one that applies names the finding)
        #[allow(non_snake_case)]
        let SHADOW: &str = if !shadow.is_empty() || modded.is_empty() { "C12:overlap-group-shadowed-by-differently-structured-seq" } else { "C12:overlap-group-matched-by-taps-under-held-modifier" };
        let both: Vec<usize> = shadow.iter().chain(modded.iter()).copied().collect();
        let shadow: &[usize] = &both;
        let mode = self.mode;
        let wit_counts: Vec<usize> = (0..self.table.seqs.len()).map(|i| downs(&obs.trace, &tn(WIT[i])).len()).collect();
        let total_fired: usize = wit_counts.iter().sum();
        let typed_names: Vec<String> = sc.presses.iter().map(|p| p.1.clone()).collect();
        let probe_downs = downs(&obs.trace, &tn(PROBE));
        let bsp = downs(&obs.trace, "BSpace").len();
        let completes = match &sc.kind {
            Kind::Complete => true,
            Kind::PrefixForeign { .. } => false,
            Kind::Timeout { gap, .. } => *gap < self.timeout,
        };
        let ctx = format!("{}/{}", mode.name(), self.leader.name());
        let mut v: Vec<(String, String, Value)> = vec![];
        // when the primary expectation fails, the remaining observations are consequences of it
        let mut primary_ok = true;
        if completes {
            self.out.inc("typings_complete");
            if let Kind::Timeout { .. } = sc.kind {
                self.out.inc("boundary_T_minus_1");
            }
            let mine = wit_counts[si];
            let others = total_fired - mine;
            if mine == 1 && others == 0 {
                self.out.inc("completions_exactly_once");
            } else if total_fired == 0 {
                primary_ok = false;
                let sig = if shadow.is_empty() { "C12:typed-seq-fires-nothing".to_string() } else { format!("{SHADOW}:typed-seq-fires-nothing") };
                v.push((sig, format!("typing a defined sequence within the timeout fired no virtual key ({ctx})"), json!({"witness_presses": {"expected": 1, "observed": 0}})));
            } else if others > 0 {
                primary_ok = false;
                // with the match lost to the shadowing sequence, the rest of the keys is matched afresh
                // (documented back-tracking) and can complete the shadowing or yet another sequence
                let sig = if !shadow.is_empty() && mine == 0 { format!("{SHADOW}:typed-seq-fires-another-seq") } else { "C12:typed-seq-fires-other-vkey".to_string() };
                v.push((sig, format!("typing a defined sequence fired another sequence's virtual key ({ctx})"), json!({"witness_presses_per_sequence": wit_counts, "typed_index": si})));
            } else {
                primary_ok = false;
                v.push(("C12:typed-seq-fires-more-than-once".into(), format!("virtual key tapped {mine} times ({ctx})"), json!({"witness_presses": {"expected": 1, "observed": mine}})));
            }
            if primary_ok {
                if obs.active_at_sample && self.leader != Leader::AlwaysOn {
                    v.push(("C12:mode-not-left-after-completion".into(), format!("sequence mode still active after the sequence completed ({ctx})"), json!({"sequence_active": false})));
                }
                if mode.hidden() {
                    let leaked: Vec<&String> = typed_names.iter().filter(|n| !downs(&obs.trace, n).is_empty()).collect();
                    if !leaked.is_empty() {
                        v.push(("C12:hidden-mode-pressed-typed-key".into(), format!("{} pressed typed key(s) {:?} at the OS although the sequence completed", mode.name(), leaked), json!({"presses_of_typed_keys": 0})));
                    } else {
                        self.out.inc("hidden_completions_without_press");
                    }
                } else {
                    let chars = typed_names.iter().filter(|n| !is_mod_name(n)).count();
                    // a forwarded repeat of a character key puts more characters on the screen than
                    // were typed; what "one backspace per character" means then is not decided
                    let repeated_chars = obs.rep_outs.iter().flatten().any(|o| o.kind == OutKind::Repeat && !is_mod_name(&o.name));
                    if repeated_chars {
                        self.out.inc("visible_backspace_count_not_judged:character_repeat_forwarded");
                    } else if bsp != chars {
                        v.push(("C12:backspace-count".into(), format!("visible-backspaced sent {bsp} backspaces for {chars} characters typed"), json!({"backspaces": chars})));
                    } else {
                        self.out.inc("visible_completions_backspaced");
                        self.out.count("backspaces_counted", bsp as u64);
                    }
                    let seen: Vec<String> = obs.trace.iter().filter(|o| o.kind == OutKind::Down && typed_names.contains(&o.name)).map(|o| o.name.clone()).collect();
                    if seen != typed_names {
                        v.push(("C12:visible-mode-keys-not-typed".into(), "visible-backspaced did not type the sequence keys as they were input".to_string(), json!({"presses_of_typed_keys": typed_names})));
                    }
                }
            }
        } else {
            self.out.inc("typings_failing");
            match &sc.kind {
                Kind::PrefixForeign { .. } => self.out.inc("fail_by_foreign_key"),
                Kind::Timeout { gap, .. } => {
                    self.out.inc("fail_by_timeout");
                    self.out.inc(if *gap == self.timeout { "boundary_T" } else { "boundary_T_plus_1" });
                }
                _ => {}
            }
            // a proper prefix typed within the timeout: the sequence must still be in progress
            let cut = match sc.kind {
                Kind::PrefixForeign { cut } | Kind::Timeout { cut, .. } => cut,
                _ => 0,
            };
            if sc.mid_sample_at.is_some() {
                if !obs.active_before_fail && (cut > 0 || self.leader != Leader::AlwaysOn) {
                    primary_ok = false;
                    let sig = if shadow.is_empty() { "C12:mode-left-on-valid-prefix".to_string() } else { format!("{SHADOW}:mode-left-on-valid-prefix") };
                    v.push((sig, format!("sequence mode ended although the keys typed so far are a proper prefix of a defined sequence and no timeout elapsed ({ctx})"), json!({"sequence_active_before_foreign_key": true})));
                } else {
                    self.out.inc("prefixes_still_in_progress");
                }
            }
            if primary_ok {
                if total_fired > 0 {
                    primary_ok = false;
                    // always-on: after the early exit the remaining keys start a new sequence of their own
                    let sig = if !shadow.is_empty() && self.leader == Leader::AlwaysOn { format!("{SHADOW}:mode-left-on-valid-prefix") } else { "C12:failing-continuation-fired-vkey".to_string() };
                    v.push((sig, format!("a virtual key was activated although the typed keys match no sequence / the timeout elapsed ({ctx})"), json!({"witness_presses_per_sequence": vec![0; wit_counts.len()], "observed": wit_counts})));
                } else {
                    self.out.inc("failures_fired_nothing");
                }
            }
            if primary_ok && obs.active_at_sample {
                primary_ok = false;
                let sig = if matches!(sc.kind, Kind::Timeout { .. }) { "C12:mode-not-left-at-timeout" } else { "C12:mode-not-left-after-failing-key" };
                v.push((sig.into(), format!("sequence mode still active after the sequence failed ({ctx})"), json!({"sequence_active": false})));
            }
            let fail_tick = sc.fail_at;
            // a typed key reaching the OS before the failure is how an early exit from sequence mode shows
            // when the mode is re-entered at once (always-on); under the shadow structure it is that finding
            let early_sig = if shadow.is_empty() { "C12:hidden-mode-pressed-typed-key".to_string() } else { format!("{SHADOW}:mode-left-on-valid-prefix") };
            if primary_ok {
                match mode {
                    Mode::HiddenSuppressed => {
                        let leaked: Vec<&String> = typed_names.iter().filter(|n| !downs(&obs.trace, n).is_empty()).collect();
                        if !leaked.is_empty() {
                            v.push((early_sig.clone(), format!("hidden-suppressed pressed typed key(s) {leaked:?} at the OS"), json!({"presses_of_typed_keys": 0})));
                        } else {
                            self.out.inc("hidden_suppressed_failures_silent");
                        }
                    }
                    Mode::HiddenDelayType => {
                        // the typed keys (and the failing key) appear as taps, in order, only once the sequence failed
                        let mut expect = typed_names.clone();
                        if fail_tick.is_some() {
                            expect.push(tn(FOREIGN));
                        }
                        let stream: Vec<&Out> = obs.trace.iter().filter(|o| matches!(o.kind, OutKind::Down | OutKind::Up) && expect.contains(&o.name)).collect();
                        let mut ok = stream.len() == 2 * expect.len();
                        if ok {
                            for (i, n) in expect.iter().enumerate() {
                                let (d, u) = (stream[2 * i], stream[2 * i + 1]);
                                if d.kind != OutKind::Down || u.kind != OutKind::Up || &d.name != n || &u.name != n {
                                    ok = false;
                                }
                            }
                        }
                        let earliest_allowed = match (&sc.kind, fail_tick) {
                            (_, Some(t)) => t + 1,
                            (Kind::Timeout { .. }, None) => sc.presses.last().map(|p| p.0 + 2).unwrap_or(0),
                            _ => 0,
                        };
                        let early = stream.iter().any(|o| o.kind == OutKind::Down && o.at < earliest_allowed);
                        if early {
                            v.push((early_sig.clone(), "hidden-delay-type pressed a typed key while the sequence was still in progress".to_string(), json!({"no_press_before_tick": earliest_allowed})));
                        } else if !ok {
                            v.push(("C12:delay-type-not-typed-as-taps".into(), "hidden-delay-type did not type the hidden keys as taps, in order, when the sequence failed".to_string(), json!({"taps": expect})));
                        } else {
                            self.out.inc("delay_type_failures_typed_as_taps");
                        }
                    }
                    Mode::VisibleBackspaced => {
                        if bsp != 0 {
                            v.push(("C12:backspace-on-failure".into(), format!("visible-backspaced sent {bsp} backspaces although no sequence completed"), json!({"backspaces": 0})));
                        }
                    }
                }
            }
        }
        if primary_ok && !sc.reps.is_empty() {
            self.judge_repeats(sc, obs, &mut v);
        }
        if primary_ok {
            // the probe key typed afterwards must be output normally, once
            if probe_downs.len() != 1 {
                v.push(("C12:next-key-not-output-normally".into(), format!("the plain key typed after the sequence ended was pressed {} times at the OS ({ctx})", probe_downs.len()), json!({"probe_presses": 1})));
            } else {
                self.out.inc("probe_output_normally");
            }
            if obs.active_at_end && self.leader != Leader::AlwaysOn {
                v.push(("C12:mode-active-at-end".into(), format!("sequence mode active after the probe key ({ctx})"), json!({"sequence_active": false})));
            }
        }
        // known finding: a sequence that lists rsft / rctl / rmet as a member stops matching at that key
        let right_hand_typed = self.table.has_right_hand_bare(si) && typed_names.iter().any(|n| is_right_hand_twin(n));
        for (sig, what, exp) in v {
            let sig = if right_hand_typed {
                format!("{RIGHT_HAND}:{}", sig.trim_start_matches("C12:"))
            } else if self.fam.is_empty() {
                sig
            } else {
                format!("{sig}:{}", self.fam)
            };
            let w = self.witness(si, ord, sc, obs, exp);
            self.out.violate(sig, what, w);
        }
    }
}

fn is_mod_name(n: &str) -> bool {
    matches!(n, "LShift" | "RShift" | "LCtrl" | "RCtrl" | "LAlt" | "RAlt" | "LGui" | "RGui")
}

// ---------------------------------------------------------------- cases

const N_FIXED: u64 = 38;
/// fixed tables of the modifier family (bare modifier keys as members, unrelated modifier held)
const N_MF_FIXED: u64 = 13;
/// every MF_EVERY-th generated case is a modifier-family case
const MF_EVERY: u64 = 6;

fn parse_accepts(cfg: &str) -> Result<(), String> {
    kanata_parser::cfg::new_from_str(cfg, Default::default()).map(|_| ()).map_err(|e| format!("{e}"))
}

#[derive(Clone, Copy, PartialEq, Eq, Debug)]
enum Family {
    /// plain keys, chorded members, O-(..) groups
    General,
    /// bare modifier keys as members, chorded members; typed with modifiers tapped / held / lingering
    Modifier,
}

fn case_family(idx: u64) -> (Family, bool) {
    if idx < N_FIXED {
        (Family::General, true)
    } else if idx < N_FIXED + N_MF_FIXED {
        (Family::Modifier, true)
    } else if (idx - N_FIXED - N_MF_FIXED) % MF_EVERY == MF_EVERY - 1 {
        (Family::Modifier, false)
    } else {
        (Family::General, false)
    }
}

fn case_tables(ctx: &Ctx, idx: u64) -> (Vec<Table>, Rng) {
    match case_family(idx) {
        (Family::General, true) => {
            let fixed = fixed_tables();
            let t = fixed[(idx as usize) % fixed.len()].clone();
            // fixed block: identical for every seed
            (vec![t], Rng::for_case(0x5eed, "C12", "fixed", idx))
        }
        (Family::Modifier, true) => {
            let fixed = mf_fixed_tables();
            let t = fixed[((idx - N_FIXED) as usize) % fixed.len()].clone();
            (vec![t], Rng::for_case(0x5eed, "C12", "mf-fixed", idx))
        }
        (Family::General, false) => {
            let mut rng = Rng::for_case(ctx.seed, "C12", "case", idx);
            let n = 12;
            let big = ctx.tier == crate::core::Tier::Thorough;
            let ts = (0..n).map(|_| gen_table(&mut rng, big)).collect();
            (ts, rng)
        }
        (Family::Modifier, false) => {
            let mut rng = Rng::for_case(ctx.seed, "C12", "mf-case", idx);
            let ts = (0..8).map(|_| gen_mf_table(&mut rng)).collect();
            (ts, rng)
        }
    }
}

#[derive(Clone, Copy, PartialEq, Eq, Debug)]
enum Mc {
    /// option absent (documented default: yes)
    Default,
    Yes,
    No,
}
impl Mc {
    fn on(self) -> bool {
        self != Mc::No
    }
    fn name(self) -> &'static str {
        if self.on() {
            "modcancel-yes"
        } else {
            "modcancel-no"
        }
    }
}

fn mf_config_text(table: &Table, mode: Mode, leader: Leader, t: u64, mc: Mc) -> String {
    let s = config_head(table, mode, leader, t);
    match mc {
        Mc::Default => s,
        Mc::Yes => s.replacen("(defcfg ", "(defcfg sequence-backtrack-modcancel yes ", 1),
        Mc::No => s.replacen("(defcfg ", "(defcfg sequence-backtrack-modcancel no ", 1),
    }
}

/// structural class of one typing of one sequence of a modifier-family table
fn mf_class(els: &[El], plan: &Plan, ty: &Typing) -> &'static str {
    let any_bare = els.iter().any(|e| matches!(e, El::Bare(_)));
    if plan.linger.is_some() {
        "unrelated-modifier-held-on-first-key"
    } else if ty.any_chord_mod_late {
        "chord-modifier-released-late"
    } else if matches!(els.first(), Some(El::Bare(_))) {
        if ty.any_bare_held {
            "bare-modifier-first-held"
        } else {
            "bare-modifier-first-tapped"
        }
    } else if any_bare {
        if ty.any_bare_held {
            "bare-modifier-later-held"
        } else {
            "bare-modifier-later-tapped"
        }
    } else if els.iter().any(|e| matches!(e, El::Mod { .. })) {
        "chorded-members"
    } else {
        "plain-keys"
    }
}

/// (b) for the modifier family: the table typed under `combos` x `mcs`
fn run_modifier_family(ctx: &Ctx, out: &mut CaseOut, table: &Table, configs: &[(Mode, Leader, Mc)], fixed: bool, rng: &mut Rng, rrng: &mut Rng) {
    {
        for (mode, leader, mc) in configs.iter().copied() {
            let timeout = *rng.pick(&[12u64, 25]);
            let cfg = mf_config_text(table, mode, leader, timeout, mc);
            if ctx.verbose {
                eprintln!("--- {} / {} / T={timeout} / {mc:?}\n{cfg}", mode.name(), leader.name());
            }
            out.tag(format!("mf-typed:{}:{}:{}:{}", mode.name(), leader.name(), mc.name(), table.shape()));
            out.inc(match mc {
                Mc::Default => "mf_configs_modcancel_default",
                Mc::Yes => "mf_configs_modcancel_yes",
                Mc::No => "mf_configs_modcancel_no",
            });
            for si in 0..table.seqs.len() {
                let els = &table.seqs[si].els;
                let plans = mf_plans(table, si, rng);
                for (pi, plan) in plans.iter().enumerate() {
                    let ty = plan_typing(els, plan);
                    let class = mf_class(els, plan, &ty);
                    out.inc("mf_typings");
                    if leader == Leader::AlwaysOn {
                        if let Some(k) = ty.pre.as_deref() {
                            // always-on: the key pressed "before" is itself the first key of a sequence
                            if table.some_seq_begins_with_key(k) {
                                out.inc("mf_skipped:always_on_held_key_begins_a_sequence");
                                continue;
                            }
                        }
                    }
                    let verdict = table.verdict(si, &ty, mc.on());
                    let n_presses = ty.steps.iter().filter(|s| s.0).count();
                    let mut scs: Vec<Scenario> = vec![];
                    match verdict {
                        Verdict::Skip(why) => {
                            out.inc(&format!("mf_skipped:{why}"));
                            continue;
                        }
                        Verdict::Unmatchable => {
                            scs.push(build_steps(&ty.steps, ty.pre.as_deref(), Kind::Complete, leader, timeout, false, rng));
                        }
                        Verdict::Fires => {
                            scs.push(build_steps(&ty.steps, ty.pre.as_deref(), Kind::Complete, leader, timeout, false, rng));
                            let min_cut = if leader == Leader::AlwaysOn { 1 } else { 0 };
                            if pi < 2 || fixed {
                                for cut in min_cut..n_presses {
                                    scs.push(build_steps(&ty.steps, ty.pre.as_deref(), Kind::PrefixForeign { cut }, leader, timeout, false, rng));
                                }
                            } else if n_presses > min_cut {
                                let cut = min_cut + rng.usize(n_presses - min_cut);
                                scs.push(build_steps(&ty.steps, ty.pre.as_deref(), Kind::PrefixForeign { cut }, leader, timeout, false, rng));
                            }
                            if pi < 2 {
                                let cut = if leader == Leader::AlwaysOn { 1 + rng.usize(n_presses.max(2) - 1) } else { rng.usize(n_presses) };
                                if cut < n_presses {
                                    for gap in [timeout - 1, timeout, timeout + 1] {
                                        scs.push(build_steps(&ty.steps, ty.pre.as_deref(), Kind::Timeout { cut, gap }, leader, timeout, false, rng));
                                    }
                                }
                            }
                            // with OS auto-repeat events (a held bare / chord / unrelated modifier is what
                            // repeats in practice)
                            if !table.has_right_hand_bare(si) {
                                let r = rep_scenarios(&ty.steps, ty.pre.as_deref(), leader, timeout, pi < 3 || rrng.chance(1, 3), pi < 2, rrng);
                                out.count("scenarios_with_repeat_events", r.len() as u64);
                                out.count("mf_scenarios_with_repeat_events", r.len() as u64);
                                scs.extend(r);
                            }
                        }
                    }
                    for sc in &scs {
                        out.inc("scenarios");
                        out.inc("mf_scenarios");
                        let obs = match run(&cfg, sc) {
                            Ok(o) => o,
                            Err(e) => {
                                out.inconclusive = Some(format!("config accepted by the parser but not by Kanata::new_from_str: {}", e.lines().next().unwrap_or("")));
                                continue;
                            }
                        };
                        if ctx.verbose {
                            eprintln!("{} [{class}] {verdict:?} | {:?} | {}\n   -> {:?}", seq_text(els), sc.kind, render_hist(&sc.hist), obs.trace.iter().map(|o| o.short()).collect::<Vec<_>>());
                        }
                        let before = out.violations.len();
                        if verdict == Verdict::Fires {
                            let mut j = Judge { out: &mut *out, table, cfg: &cfg, mode, leader, timeout, fam: class };
                            j.judge(si, els, sc, &obs, &[], &[]);
                            if out.violations.len() == before {
                                let completes = match &sc.kind {
                                    Kind::Complete => true,
                                    Kind::PrefixForeign { .. } => false,
                                    Kind::Timeout { gap, .. } => *gap < timeout,
                                };
                                if completes {
                                    out.inc(&format!("mf_fired_once:{class}:{}", mc.name()));
                                } else {
                                    out.inc(&format!("mf_failed_cleanly:{class}"));
                                }
                            }
                        } else {
                            // nothing that was typed matches anything: no virtual key
                            let fired: Vec<usize> = (0..table.seqs.len()).map(|i| downs(&obs.trace, &tn(WIT[i])).len()).collect();
                            if fired.iter().sum::<usize>() > 0 {
                                let w = json!({
                                    "config": cfg,
                                    "sequence": table.seqs[si].text(),
                                    "history": render_hist(&sc.hist),
                                    "observed": obs.trace.iter().map(|o| o.short()).collect::<Vec<_>>(),
                                    "expected": {"witness_presses_per_sequence": vec![0; fired.len()], "observed": fired, "why": "as seen by the matcher (each press with the modifiers down at that moment) the typed keys match no defined sequence under this sequence-backtrack-modcancel setting"},
                                });
                                let right_hand_typed = table.has_right_hand_bare(si) && sc.presses.iter().any(|p| is_right_hand_twin(&p.1));
                                let sig = if right_hand_typed { format!("{RIGHT_HAND}:unmatchable-typing-fired-vkey") } else { format!("C12:unmatchable-typing-fired-vkey:{class}:{}", mc.name()) };
                                out.violate(sig, format!("a virtual key was activated by keys that match no sequence with {} ({}/{})", mc.name(), mode.name(), leader.name()), w);
                            } else {
                                out.inc(&format!("mf_unmatchable_fired_nothing:{class}:{}", mc.name()));
                            }
                        }
                    }
                }
            }
        }
    }
}

impl Check for C12Check {
    fn id(&self) -> &'static str {
        "C12"
    }
    fn n_cases(&self, ctx: &Ctx) -> u64 {
        N_FIXED + N_MF_FIXED + ctx.tier.sel(6_000, 48_000)
    }
    fn describe(&self, ctx: &Ctx, idx: u64) -> Value {
        let (ts, _) = case_tables(ctx, idx);
        json!(ts.iter().map(|t| t.text()).collect::<Vec<_>>())
    }
    fn run_case(&self, ctx: &Ctx, idx: u64) -> CaseOut {
        let mut out = CaseOut::new();
        let (tables, mut rng) = case_tables(ctx, idx);
        let (family, fixed) = case_family(idx);
        let mut runtime_table: Option<Table> = None;
        // ---- (a) parser half on every table
        for t in &tables {
            let cfg = config_text(t, Mode::HiddenSuppressed, Leader::Sldr, 20);
            out.inc("tables");
            if family == Family::Modifier {
                out.inc("mf_tables");
            }
            let conflicts = t.conflicts();
            out.max("orderings_per_table", t.seqs.iter().map(|s| n_orderings(&s.els)).sum::<u64>());
            match parse_accepts(&cfg) {
                Ok(()) => {
                    out.inc("tables_accepted");
                    if conflicts.is_empty() {
                        out.inc("accepted_prefix_free");
                    }
                    for c in &conflicts {
                        out.inc("accepted_with_conflict");
                        let sig = format!("C12:accepted-not-prefix-free:{}", c.class);
                        out.violate(
                            sig,
                            format!("accepted defseq table in which {} is a prefix of an ordering of {} as typed ({})", t.seqs[c.x].text(), t.seqs[c.y].text(), c.class),
                            json!({"config": cfg, "history": "(parser only)", "observed": "accepted", "expected": "rejected, or no ordering of one sequence is a prefix of an ordering of another", "prefix_sequence": t.seqs[c.x].text(), "longer_sequence": t.seqs[c.y].text(), "class": c.class}),
                        );
                    }
                    out.tag(format!("acc:{}", t.shape()));
                    if runtime_table.is_none() {
                        runtime_table = Some(t.clone());
                    }
                }
                Err(e) => {
                    out.inc("tables_rejected");
                    if conflicts.is_empty() {
                        // not judged (only accepted => prefix-free is)
                        out.inc("rejected_without_model_conflict");
                        if ctx.verbose {
                            eprintln!("rejected without model conflict: {}\n{e}", t.text());
                        }
                    } else {
                        out.inc("rejected_with_conflict");
                    }
                    out.tag(format!("rej:{}", t.shape()));
                }
            }
        }
        // ---- (b) runtime half on the first accepted table
        let Some(table) = runtime_table else { return out };
        out.inc("tables_typed");
        if family == Family::Modifier {
            out.inc("mf_tables_typed");
            let mut rrng = Rng::for_case(if fixed { 0x5eed } else { ctx.seed }, "C12", "mf-rep", idx);
            if fixed {
                let configs: Vec<(Mode, Leader, Mc)> = COMBOS.iter().flat_map(|(m, l)| [Mc::Default, Mc::Yes, Mc::No].into_iter().map(|mc| (*m, *l, mc))).collect();
                run_modifier_family(ctx, &mut out, &table, &configs, true, &mut rng, &mut rrng);
            } else {
                let a = rng.usize(COMBOS.len());
                let b = (a + 1 + rng.usize(COMBOS.len() - 1)) % COMBOS.len();
                let yes = if rng.coin() { Mc::Default } else { Mc::Yes };
                let (a, b) = (COMBOS[a], COMBOS[b]);
                run_modifier_family(ctx, &mut out, &table, &[(a.0, a.1, Mc::Default), (b.0, b.1, yes), (a.0, a.1, Mc::No)], false, &mut rng, &mut rrng);
            }
            if idx % 300 == 5 || idx == N_FIXED {
                out.sample = Some(json!({"idx": idx, "family": "modifier", "table": table.text()}));
            }
            return out;
        }
        let combos: Vec<(Mode, Leader)> = if fixed {
            COMBOS.to_vec()
        } else {
            let a = rng.usize(COMBOS.len());
            let b = (a + 1 + rng.usize(COMBOS.len() - 1)) % COMBOS.len();
            vec![COMBOS[a], COMBOS[b]]
        };
        let ord_cap = ctx.tier.sel(8, 24);
        let mut rrng = Rng::for_case(if fixed { 0x5eed } else { ctx.seed }, "C12", "rep", idx);
        // echo family (own random stream: the scenarios above are the same with and without it)
        let mut erng = Rng::for_case(if fixed { 0x5eed } else { ctx.seed }, "C12", "echo", idx);
        for (mode, leader) in combos {
            let timeout = *rng.pick(&[12u64, 25]);
            let cfg = config_text(&table, mode, leader, timeout);
            // the same table with virtual keys whose output contains typed keys; not with
            // sequence-always-on, where the virtual key's output would itself be sequence input
            let echo_cfgs: Vec<(echo::EchoTable, String)> = if leader == Leader::AlwaysOn {
                vec![]
            } else {
                let kinds: Vec<echo::EchoKind> = if fixed { echo::ECHO_KINDS.to_vec() } else { vec![echo::ECHO_KINDS[*erng.pick(&[0usize, 1, 2, 0, 1, 2, 3, 4])]] };
                kinds
                    .into_iter()
                    .filter_map(|k| {
                        echo::echo_table(&table, k, &mut erng).map(|et| {
                            let c = echo::echo_config(&cfg, &table, &et);
                            (et, c)
                        })
                    })
                    .collect()
            };
            for (et, _) in &echo_cfgs {
                out.inc("echo_configs");
                out.tag(format!("echo:{}:{}:{}:{}", et.kind.name(), mode.name(), leader.name(), table.shape()));
            }
            if ctx.verbose {
                eprintln!("--- {} / {} / T={timeout}\n{cfg}", mode.name(), leader.name());
            }
            out.tag(format!("typed:{}:{}:{}", mode.name(), leader.name(), table.shape()));
            for si in 0..table.seqs.len() {
                let ords = orderings(&table.seqs[si].els, ord_cap, &mut rng);
                for (oi, ord) in ords.iter().enumerate() {
                    // orderings that have another sequence as a prefix are ambiguous by oracle (a)
                    // (reported there); their run-time outcome is not determined by the statement
                    if table.ordering_has_prefix_conflict(si, ord) {
                        out.inc("orderings_skipped_ambiguous");
                        continue;
                    }
                    out.inc("orderings_typed");
                    let shadow = table.shadowed_by(si, ord);
                    if !shadow.is_empty() {
                        out.inc("orderings_in_known_shadow_structure");
                    }
                    let modded = table.overlap_group_vs_modded_taps(si, ord);
                    if !modded.is_empty() {
                        out.inc("orderings_in_known_modded_taps_structure");
                    }
                    let n_presses = user_steps(ord, false).iter().filter(|s| s.0).count();
                    let has_inner_ov = ord.iter().take(ord.len().saturating_sub(1)).any(|e| matches!(e, El::Ov(_)));
                    let mut scs: Vec<Scenario> = vec![];
                    scs.push(build(ord, Kind::Complete, leader, timeout, false, &mut rng));
                    // holding an overlap group through the next key makes that key part of the overlap as
                    // far as any observer can tell; only typed where no other sequence begins like this one
                    if has_inner_ov && user_steps(ord, true) != user_steps(ord, false) && !table.shares_first_press(si, ord) {
                        scs.push(build(ord, Kind::Complete, leader, timeout, true, &mut rng));
                    }
                    if oi < 2 {
                        let min_cut = if leader == Leader::AlwaysOn { 1 } else { 0 };
                        for cut in min_cut..n_presses {
                            scs.push(build(ord, Kind::PrefixForeign { cut }, leader, timeout, false, &mut rng));
                        }
                        // one boundary position per ordering, all three gaps
                        let max_cut = n_presses; // gap before press index `cut`; cut == 0 is leader -> first key
                        let cut = if leader == Leader::AlwaysOn { 1 + rng.usize(max_cut.max(2) - 1) } else { rng.usize(max_cut) };
                        if cut < n_presses {
                            for gap in [timeout - 1, timeout, timeout + 1] {
                                scs.push(build(ord, Kind::Timeout { cut, gap }, leader, timeout, false, &mut rng));
                            }
                        }
                    }
                    // the same typing with OS auto-repeat events in it (a key held long enough to repeat,
                    // stray repeats of keys that are not down); not where a known structural class
                    // already takes the sequence out of progress
                    if shadow.is_empty() && modded.is_empty() {
                        let st = user_steps(ord, false);
                        let r = rep_scenarios(&st, None, leader, timeout, oi < 2 || rrng.chance(1, 3), oi < 2, &mut rrng);
                        out.count("scenarios_with_repeat_events", r.len() as u64);
                        scs.extend(r);
                        // echo family: complete typings, the completing key (and, rolled over, the
                        // key before a press) still down while the virtual key writes typed keys
                        if oi < 2 {
                            for (et, ecfg) in &echo_cfgs {
                                for long in [true, false] {
                                    // a final O-(..) group that another sequence also begins with is only decided
                                    // when its keys are released: not held beyond a few ticks
                                    let hold = echo::pick_hold(&mut erng, long, matches!(ord.last(), Some(El::Ov(_))));
                                    let ro = !table.has_overlap_groups() && erng.coin();
                                    let esc = echo::build_echo(&st, leader, hold, ro, echo::settle_for(et, si), &mut erng);
                                    out.inc("scenarios");
                                    echo::run_and_judge_echo(&mut out, ctx.verbose, &table, ecfg, mode, leader, et, si, ord, &esc);
                                }
                            }
                        }
                    }
                    for sc in &scs {
                        out.inc("scenarios");
                        match run(&cfg, sc) {
                            Ok(obs) => {
                                if ctx.verbose {
                                    eprintln!("{} | {:?} | {}\n   -> {:?}", seq_text(ord), sc.kind, render_hist(&sc.hist), obs.trace.iter().map(|o| o.short()).collect::<Vec<_>>());
                                }
                                let hold = sc.hold_through;
                                let mut j = Judge { out: &mut out, table: &table, cfg: &cfg, mode, leader, timeout, fam: "" };
                                // the structural class only explains failures of the canonical typing
                                let before = j.out.violations.len();
                                j.judge(si, ord, sc, &obs, if hold { &[] } else { &shadow }, if hold { &[] } else { &modded });
                                if !hold && shadow.is_empty() && !modded.is_empty() {
                                    let failed = out.violations.len() > before;
                                    out.inc(if failed { "modded_taps_structure_scenarios_failing" } else { "modded_taps_structure_scenarios_passing" });
                                }
                                if !hold && !shadow.is_empty() {
                                    let failed = out.violations.len() > before;
                                    out.inc(if failed { "shadow_structure_scenarios_failing" } else { "shadow_structure_scenarios_passing" });
                                }
                            }
                            Err(e) => {
                                out.inconclusive = Some(format!("config accepted by the parser but not by Kanata::new_from_str: {}", e.lines().next().unwrap_or("")));
                            }
                        }
                    }
                }
            }
        }
        if idx % 300 == 7 || idx == 0 {
            out.sample = Some(json!({"idx": idx, "table": table.text(), "orderings": table.seqs.iter().map(|s| n_orderings(&s.els)).collect::<Vec<_>>()}));
        }
        out
    }
    fn rule(&self) -> String {
        "two case families. General family (5 of 6 generated cases): case = 12 generated defseq tables (2-4 sequences of 1-4 elements over keys a-f: plain keys, S-/C-/A- chorded keys and groups, O-(..) groups of 2-6 keys; about a third deliberately derived from another sequence of the table as prefix / extension / sub- or super-group) judged by the parser-half oracle; the first accepted table is then typed under 2 of the 8 (input mode x leader) combinations (all 8 for the fixed tables that are the same for every seed (38 cases): the guide's examples, the repository's own overlap table, the known-finding witnesses): every sequence in every permitted ordering (capped at 8 quick / 24 thorough per sequence), with overlap groups released before the next key and held through it; every proper press-prefix followed by a key that occurs in no sequence; one inter-press position per ordering stretched to T-1 / T / T+1. Modifier family (every 6th generated case + 13 fixed tables typed under all 8 combinations x modcancel absent/yes/no): case = 8 generated tables of 1-4 sequences of 1-4(5) members over plain keys a-g, bare modifier keys (lsft lctl lalt lmet ralt, rarely rsft rctl rmet; more likely as first member) and S-/C-/A- chorded keys and groups, two fifths derived from another sequence (chord respelled with the bare key and back, a modifier put in front, same beginning / extension, modifiers dropped), all judged by the parser-half oracle; the first accepted table is typed under 2 (mode, leader) combinations with sequence-backtrack-modcancel absent / yes and once more with no: every sequence canonically (bare modifier tapped), with every bare modifier kept down to the end, with single bare modifiers kept down over the next 1-2 members, with the modifier of one chorded member released only after the next member, with an unrelated modifier pressed before the leader and released after the first press / a random press / everything, and both together; each typing the documented rule decides is run complete, cut after every (first two typings) or one random press + foreign key, and with one position stretched to T-1 / T / T+1; typings that match nothing under the configured setting must fire no virtual key. OS auto-repeat events (both families, from their own random stream so that the scenarios above are the same with and without them): each of the first two typings / orderings of a sequence (the first three in the modifier family; one in three of the others) is typed once more completely with one typed press other than the completing one (even odds: the last such press, else any) kept down and repeated 1-3 times starting 0-2 ticks after the press was consumed, 1-2 ticks apart, before anything else is typed, and in two of three cases one stray repeat event just before a random press: of a key that is never pressed, of the released leader key, of a typed key already released again, or of the unrelated modifier held since before the leader; the first two typings also get one failing variant with repeats (even odds: cut after a random press >= 1 + foreign key, or one position stretched to T-1 / T / T+1; the held key is then the one down during the silence half of the time). A repeat scenario whose events do not fit the prescribed schedule (every press and the foreign key consumed < T after the previous press, repeats of the held key over >= 2 ticks before the timeout could elapse) is rebuilt with minimal gaps or dropped. Not added for orderings in the two known overlap-group structures nor for sequences with a right-hand modifier member. Echo family (general family, own random stream): under each typed (mode, leader) combination other than always-on the table is configured once more with one of 5 virtual-key action shapes that output typed keys (each macro shape 1 in 4, key and multi action 1 in 8 each; all 5 for the fixed tables): (macro W k1..kn) with every character key of the sequence, (macro k W), (macro W 15 k), k, (multi W k), k = last listed character key 3 in 4, else any; the first two orderings of every sequence (outside the two known overlap-group structures) are typed completely twice, the keys still down after the completing press held for one of 6/12/30/60 ticks and for one of 0/1/2/3/6/12/30/60 ticks (0-3 when the ordering ends in an O-(..) group), in tables without O-(..) groups with even odds rolled over (each character key released after the next press instead of before). Non-trivial = table reached the parser; distinct = (accept/reject, table shape), (mode, leader, [modcancel,] table shape) typed and (echo action shape, mode, leader, table shape).".into()
    }
    fn assumptions(&self) -> Vec<String> {
        vec![
            "canonical typing: a plain key is tapped, S-k holds the modifier around a tap of k, S-(a b) holds it around taps of a and b, O-(..) keys are all pressed before any is released; chords are typed with the left-hand modifier keys; bare modifier keys are members only in the modifier family, which has no O-(..) groups".into(),
            "modifier family, matching rule (guide, sequence-backtrack-modcancel, and the design note it links): a press is seen with the modifier classes down at that moment (a modifier key counts itself); a member written bare (a, lsft) matches a press seen without modifiers, a chorded member matches a press seen with exactly its modifiers; with modcancel yes (default) a press may also be read without any of its modifiers (all or none), with no it may not. So (lsft a b) fires with yes whether lsft is tapped or held and never with no; a first key typed under an unrelated held modifier matches with yes and not with no".into(),
            "modifier family, what is judged: a typing is expected to fire its sequence only if no other sequence matches (with modifiers cancelled) the typed presses, a proper beginning of them, a run of them starting later (the matcher may drop keys from the front), or begins with all of them, and if no press that must be read without modifiers precedes one that must be read with them while some sequence lists the earlier press as seen at that position (the order in which readings are tried is not documented); everything else is counted under mf_skipped:* and not typed. A typing that matches nothing is judged only for 'no virtual key fires'".into(),
            "modifier family: the unrelated modifier is one whose class the typed sequence does not use; with sequence-always-on it is itself a first key, so it is only used when no sequence of the table begins with that key".into(),
            "a member rsft / rctl / rmet is expected to match presses of that key like any other member; the unchanged tree never matches it (known finding, own signature class, applied only to typings that press such a member)".into(),
            "prefix relation of oracle (a) follows the documented matching: a plain sequence matches its presses in order regardless of releases, an O-(..) group only matches presses that overlap; two sequences that complete on the same press (e.g. (a b) and (O-(a b))) are not a conflict (the repository's own tests define the overlap variant to win)".into(),
            "general family: tables with chorded members (S-a, S-(a b), ...) are typed with sequence-backtrack-modcancel no (how modifier cancelling interacts with O-(..) groups is not documented); tables of plain keys and O-(..) groups run with the default. Chorded members under the default / yes are covered by the modifier family".into(),
            "orderings for which oracle (a) reports a prefix conflict are not typed (their outcome is ambiguous by that finding)".into(),
            "sequence-always-on is judged only with hidden-delay-type and visible-backspaced: with hidden-suppressed every key that is not part of a sequence, including the witness keys, is swallowed by design".into(),
            "whether sequence mode has ended is read from the OS stream where it shows and from the public sequence_state.is_active() between ticks otherwise (visible-backspaced shows keys either way)".into(),
            "auto-repeat events: a repeat event is not a typed key (it does not advance, fail or prolong a sequence; the unchanged tree and the comment in key_repeat.rs agree, the statement speaks of keys typed). 'In progress' for the hidden-mode clause is decided by the model, not read from kanata: from the tick that consumed the press of the held key (itself after the leader was consumed, or the first key with always-on) until the completing press / the foreign key / T-2 ticks after the last press".into(),
            "auto-repeat events, visible-backspaced: the typed keys are down at the OS and the unchanged tree forwards their repeats ('key repeat does not interact with the sequence'); the statement does not say whether it should, so forwarded / not forwarded is only counted, and 'one backspace per character typed' is not judged for a completing typing in which a repeat of a non-modifier key reached the OS (more characters are on the screen than were typed); repeats of modifier keys do not type characters and leave the count judged. Repeats of the unrelated modifier held since before the leader (down at the OS in every mode) are only counted: the hidden modes drop them, visible-backspaced forwards them, the statement decides neither".into(),
            "auto-repeat events are only placed while the sequence is in progress (or, stray ones, before the first key with always-on); repeats of keys still held when the sequence completes or fails are C14's subject".into(),
            "echo family: 'taps its virtual key exactly once' is read at the OS as: what the action writes when the virtual key is tapped once on its own (macro k1 k2 = taps of k1, k2 in that order; a key or multi action = its keys pressed and released) arrives there completely and once, whether or not the same keys were typed in the sequence and are still physically down; presses are compared from the tick after the completing press was consumed up to the probe key; releases only as 'every such press is released again before the probe' (visible-backspaced releases the typed keys that are still down at the OS in that window as well)".into(),
            "echo family, restrictions: not typed with sequence-always-on (the virtual key's output would itself be sequence input); an ordering ending in an O-(..) group is held at most 3 ticks after the completing press (where another sequence begins with the same keys the group is only decided when its keys are released, so a long hold is a timeout; the statement does not say when a group counts as typed); roll-over only in tables without O-(..) groups (rolled-over plain keys are an overlap); modifier keys are never echoed and not watched. Modifier-family tables are not run with echo actions".into(),
            "echo family, known finding on the unchanged tree (own signature, judged live everywhere else): a key / multi action is pressed in the tick right after completion; if its key was typed and is still physically down in the completion tick (always so for the completing key) it is taken for an old press and never reaches the OS. The known signature is only given when the action is k or (multi W k), k is physically down in the completion tick and exactly k is missing from the presses; with action k there is no witness, so 'the sequence did not fire at all' cannot be told apart in that one shape".into(),
            "timeout boundary per DESIGN appendix A: a press arriving < T ticks after the previous press (or the leader) continues, at >= T the mode has ended".into(),
        ]
    }
    fn floors(&self, _ctx: &Ctx) -> Vec<(&'static str, u64)> {
        vec![
            ("tables_accepted", 1000),
            ("tables_rejected", 300),
            ("accepted_prefix_free", 500),
            ("rejected_with_conflict", 200),
            ("completions_exactly_once", 3000),
            ("failures_fired_nothing", 3000),
            ("hidden_completions_without_press", 500),
            ("delay_type_failures_typed_as_taps", 300),
            ("visible_completions_backspaced", 300),
            ("boundary_T_minus_1", 200),
            ("boundary_T", 200),
            ("boundary_T_plus_1", 200),
            ("probe_output_normally", 5000),
            // modifier family: every new dimension was exercised and came out as the rule says
            ("mf_tables_typed", 300),
            ("mf_configs_modcancel_default", 300),
            ("mf_configs_modcancel_yes", 100),
            ("mf_configs_modcancel_no", 300),
            ("mf_fired_once:bare-modifier-first-tapped:modcancel-yes", 500),
            ("mf_fired_once:bare-modifier-first-held:modcancel-yes", 300),
            ("mf_fired_once:bare-modifier-later-tapped:modcancel-yes", 200),
            ("mf_fired_once:bare-modifier-later-held:modcancel-yes", 100),
            ("mf_fired_once:unrelated-modifier-held-on-first-key:modcancel-yes", 2000),
            ("mf_fired_once:chord-modifier-released-late:modcancel-yes", 300),
            ("mf_unmatchable_fired_nothing:chord-modifier-released-late:modcancel-no", 100),
            ("mf_fired_once:chorded-members:modcancel-yes", 500),
            ("mf_fired_once:chorded-members:modcancel-no", 200),
            ("mf_failed_cleanly:bare-modifier-first-tapped", 1500),
            ("mf_failed_cleanly:bare-modifier-first-held", 800),
            ("mf_failed_cleanly:unrelated-modifier-held-on-first-key", 3000),
            ("mf_unmatchable_fired_nothing:bare-modifier-first-tapped:modcancel-no", 150),
            ("mf_unmatchable_fired_nothing:bare-modifier-first-held:modcancel-no", 200),
            ("mf_unmatchable_fired_nothing:unrelated-modifier-held-on-first-key:modcancel-no", 1500),
            // auto-repeat events: every class was injected and observed in every input mode
            ("scenarios_with_repeat_events", 50_000),
            ("mf_scenarios_with_repeat_events", 8_000),
            ("repeat_events_of_held_typed_character_key", 50_000),
            ("repeat_events_of_held_typed_modifier_key", 10_000),
            ("hidden_suppressed_repeats_of_held_typed_key_silent", 15_000),
            ("hidden_delay_type_repeats_of_held_typed_key_silent", 20_000),
            ("visible_repeat_events_of_held_typed_key", 20_000),
            ("repeats_of_never_pressed_key_silent", 10_000),
            ("repeats_of_released_leader_key_silent", 6_000),
            ("repeats_of_released_typed_key_silent", 8_000),
            ("repeat_events_of_unrelated_held_modifier", 300),
            // echo family: every action shape ran, typed keys were written while physically held
            ("echo_configs", 4000),
            ("echo_scenarios", 30_000),
            ("echo_scenarios:macro-of-all-typed-keys", 5000),
            ("echo_scenarios:macro-typed-key-first", 5000),
            ("echo_scenarios:macro-typed-key-delayed", 5000),
            ("echo_scenarios:key-action", 2500),
            ("echo_scenarios:multi-action", 2500),
            ("echo_scenarios_completing_key_held_6_to_60_ticks", 20_000),
            ("echo_scenarios_typed_with_rollover", 1500),
            ("echo_completions_output_complete_hidden_modes", 12_000),
            ("echo_completions_output_complete_visible_mode", 6000),
            ("echo_typed_key_output_while_held_hidden_modes", 6000),
            ("echo_typed_key_output_while_held_visible_mode", 3000),
            ("echo_typed_key_output_while_held:macro-of-all-typed-keys", 3000),
            ("echo_typed_key_output_while_held:macro-typed-key-first", 3000),
            ("echo_typed_key_output_while_held:macro-typed-key-delayed", 1500),
            ("echo_hidden_completions_without_press", 12_000),
            ("echo_visible_completions_backspaced", 6000),
        ]
    }
}
