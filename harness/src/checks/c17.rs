//! C17 — not implemented yet (stub so that the registry compiles).

use crate::core::{CaseOut, Check, Ctx};

pub struct C17Check;
pub static C17: C17Check = C17Check;

impl Check for C17Check {
    fn id(&self) -> &'static str {
        "C17"
    }
    fn n_cases(&self, _ctx: &Ctx) -> u64 {
        0
    }
    fn run_case(&self, _ctx: &Ctx, _idx: u64) -> CaseOut {
        CaseOut::new()
    }
    fn rule(&self) -> String {
        "not implemented".into()
    }
    fn assumptions(&self) -> Vec<String> {
        vec![]
    }
}
