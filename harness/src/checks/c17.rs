//! C17 — tap-dance performs exactly the action for the number of taps.
//!
//! Oracle: an executable reference model of the documented tap-dance rules (configuration guide,
//! "tap-dance": the timeout restarts at every press; the action is chosen when the timeout expires,
//! a different key is pressed, or the list is exhausted; the eager form performs action i at tap i)
//! combined with the processing discipline of DESIGN.md appendix A (events are consumed in arrival
//! order, one per tick; while a lazy dance is undecided later events wait; after a lazy decision
//! event processing pauses for `rapid-event-delay` ticks). The model predicts the complete OS key
//! stream (which key, down/up, in which tick); the real code is observed through the stepper.
//!
//! The only place where the statement leaves a choice is a press arriving exactly `T` ticks after
//! the previous one in the lazy form: "counted" and "starts a new dance" are both accepted; the
//! unchanged tree does neither (the press is swallowed) — that is reported under its own signature
//! (known finding, DESIGN §6 #11). Schedules in which more presses of the dance key are queued at
//! one examination than the list has items left (only reachable with same-millisecond events or
//! taps faster than rapid-event-delay) are not determined by the statement and judged by
//! invariants only.
//!
//! Lists with tap-hold items ("tap-hold inside"): list position i may be
//! `(tap-hold tt H <tap witness i> <hold witness i>)`, so the performed position AND the decision
//! of the item are visible as distinct keys. `model_nested` adds the tap-hold decision of appendix A
//! to the same dance rules; in particular the eager timeout keeps counting from the processing of
//! the previous press on every tick, also while the tap-hold item (or anything else) is undecided:
//! a tap held d ticks and pressed again g ticks after its release with g < T <= d + g starts a NEW
//! dance. These configurations get the exhaustive schedules (gaps additionally H-1, H) and a
//! systematic family (holds around 0 / H / T x press distances around T and d + T); their
//! signatures carry `tap-hold-item`, their counters the prefix `th_`. The four older lists with
//! a layer-while-held item stay judged by invariants only.
//!
//! Several tap-dance keys in one configuration (`c17_multi.rs`): two or three keys of one layer are
//! tap-dance keys (eager+eager, eager+lazy, lazy+lazy, with a plain third key, three dances), each
//! with its own witness keys, list length and timeout. The model judges every key's dance per key:
//! a press of another key - plain or tap-dance - ends the running dance, the pressed key starts its
//! own dance at its first action and its further taps perform ITS second, third ... action; a key
//! tapped again after another key was pressed starts at its first action again even inside its
//! own timeout. Exhaustive schedules over the two / three keys and a systematic family of
//! interleaved taps (press distances around T/2 and T, plain and rolling); signatures
//! `C17:multi:<forms>:...`, counters with the prefix `multi_`.

use crate::core::sim::{code_name, osc, render_hist, Ev, OutKind, Sim};
use crate::core::{CaseOut, Check, Ctx};
use serde_json::{json, Value};
use std::collections::VecDeque;

#[path = "c17_multi.rs"]
mod multi;

pub struct C17Check;
pub static C17: C17Check = C17Check;

// ------------------------------------------------------------------------------------------------
// configurations

#[derive(Clone, Copy, PartialEq, Eq, Debug)]
enum In {
    PD,
    RD,
    PO,
    RO,
}

#[derive(Clone, Debug)]
struct Conf {
    lazy: bool,
    len: usize,
    t: u32,
    r: u32,
    /// list contains a layer-while-held and a tap-hold item: judged by invariants only
    special: bool,
    /// list positions holding a `tap-hold` item (judged by the nested model); None = plain keys
    th: Option<Th>,
}

/// Tap-hold items inside the action list: position i (bit i of `mask`) is
/// `(tap-hold tt h <tap witness i> <hold witness i>)`, every other position a plain witness key.
#[derive(Clone, Copy, Debug, PartialEq, Eq)]
struct Th {
    h: u32,
    tt: u32,
    mask: u8,
}

const D_KEY: &str = "a";
const O_KEY: &str = "b";
const WITNESS: [&str; 4] = ["1", "2", "3", "4"];
/// hold-action witnesses of tap-hold items at list position 1..4
const HOLD_WITNESS: [&str; 4] = ["5", "6", "7", "8"];
/// model key index of the hold witness of position i is HOLD_BASE + i
const HOLD_BASE: u8 = 20;
/// key index used for the other key in model output
const OTHER: u8 = 9;

impl Conf {
    fn text(&self) -> String {
        let form = if self.lazy { "tap-dance" } else { "tap-dance-eager" };
        if let Some(th) = self.th {
            let list: Vec<String> = (0..self.len)
                .map(|i| {
                    if th.mask >> i & 1 == 1 {
                        format!("(tap-hold {} {} {} {})", th.tt, th.h, WITNESS[i], HOLD_WITNESS[i])
                    } else {
                        WITNESS[i].to_string()
                    }
                })
                .collect();
            format!(
                "(defcfg process-unmapped-keys yes rapid-event-delay {r})\n(defsrc {D_KEY} {O_KEY})\n(deflayer base ({form} {t} ({list})) {O_KEY})\n",
                r = self.r,
                t = self.t,
                list = list.join(" ")
            )
        } else if self.special {
            // position 2 holds a layer on which the other key is a different witness, position 3 is a
            // tap-hold
            format!(
                "(defcfg process-unmapped-keys yes rapid-event-delay {r})\n(defsrc {D_KEY} {O_KEY})\n(deflayer base ({form} {t} (1 (layer-while-held nav) (tap-hold 20 20 3 4) 5)) {O_KEY})\n(deflayer nav _ c)\n",
                r = self.r,
                t = self.t
            )
        } else {
            format!(
                "(defcfg process-unmapped-keys yes rapid-event-delay {r})\n(defsrc {D_KEY} {O_KEY})\n(deflayer base ({form} {t} ({list})) {O_KEY})\n",
                r = self.r,
                t = self.t,
                list = WITNESS[..self.len].join(" ")
            )
        }
    }
    fn label(&self) -> String {
        let th = match self.th {
            Some(th) => format!("|th{:b}|H{}|tt{}", th.mask, th.h, th.tt),
            None => String::new(),
        };
        format!("{}|L{}|T{}|R{}{}{}", if self.lazy { "lazy" } else { "eager" }, self.len, self.t, self.r, if self.special { "|special" } else { "" }, th)
    }
    /// inter-event gaps of the exhaustive schedules: the boundaries of the dance timeout and, for
    /// lists with tap-hold items, of the tap-hold timeout
    fn gaps(&self) -> Vec<u32> {
        let mut g = vec![0, 1, self.t - 1, self.t, self.t + 1];
        if let Some(th) = self.th {
            g.push(th.h - 1);
            g.push(th.h);
        }
        g.sort();
        g.dedup();
        g
    }
    fn is_th(&self, pos: usize) -> bool {
        self.th.map(|th| th.mask >> pos & 1 == 1).unwrap_or(false)
    }
}

fn configs() -> Vec<Conf> {
    let mut v = vec![];
    for &t in &[3u32, 60] {
        for &lazy in &[true, false] {
            for len in 1..=4usize {
                for &r in &[0u32, 5] {
                    v.push(Conf { lazy, len, t, r, special: false, th: None });
                }
            }
        }
    }
    for &t in &[3u32, 60] {
        for &lazy in &[true, false] {
            v.push(Conf { lazy, len: 4, t, r: 5, special: true, th: None });
        }
    }
    // lists with tap-hold items: (dance timeout, tap-hold timeout, rapid-event-delay) with the
    // tap-hold timeout below and above the dance timeout x which positions hold a tap-hold
    // (len, mask) x form; tap repress timeout 0, and equal to the tap-hold timeout for two shapes
    for &(t, h, r) in &[(3u32, 2u32, 0u32), (3, 5, 5), (60, 20, 5), (60, 75, 0)] {
        for &(len, mask) in &[(2usize, 0b01u8), (2, 0b10), (2, 0b11), (3, 0b101), (3, 0b010)] {
            for &lazy in &[true, false] {
                v.push(Conf { lazy, len, t, r, special: false, th: Some(Th { h, tt: 0, mask }) });
            }
        }
        for &(len, mask) in &[(2usize, 0b01u8), (2, 0b11)] {
            for &lazy in &[true, false] {
                v.push(Conf { lazy, len, t, r, special: false, th: Some(Th { h, tt: h, mask }) });
            }
        }
    }
    v
}

// ------------------------------------------------------------------------------------------------
// schedules

#[derive(Clone, Debug)]
struct Sched {
    /// (event, gap in ticks before it); the first gap is 0
    evs: Vec<(In, u32)>,
}

impl Sched {
    fn hist(&self) -> Vec<Ev> {
        let d = osc(D_KEY);
        let o = osc(O_KEY);
        let mut h = vec![];
        for (e, g) in &self.evs {
            if *g > 0 {
                h.push(Ev::T(*g));
            }
            h.push(match e {
                In::PD => Ev::P(d),
                In::RD => Ev::R(d),
                In::PO => Ev::P(o),
                In::RO => Ev::R(o),
            });
        }
        h
    }
    fn arrivals(&self) -> Vec<(In, u64)> {
        let mut t = 0u64;
        self.evs
            .iter()
            .map(|(e, g)| {
                t += *g as u64;
                (*e, t)
            })
            .collect()
    }
}

/// number of exhaustive schedules with exactly n events
fn block(n: u32, ng: u64) -> u64 {
    (1u64 << n) * ng.pow(n - 1)
}
fn total_exhaustive(nmax: u32, ng: u64) -> u64 {
    (1..=nmax).map(|n| block(n, ng)).sum()
}

/// Exhaustive schedule number `s`: n events, each the toggle (press if up, release if down) of the
/// dance key or of the other key, with a gap from the set before every event but the first; keys
/// still down after the n-th event are released afterwards.
fn exhaustive_sched(mut s: u64, nmax: u32, gaps: &[u32]) -> Option<Sched> {
    let ng = gaps.len() as u64;
    let mut n = 1;
    loop {
        if n > nmax {
            return None;
        }
        let b = block(n, ng);
        if s < b {
            break;
        }
        s -= b;
        n += 1;
    }
    let keybits = s & ((1 << n) - 1);
    let mut g = s >> n;
    let mut evs = vec![];
    let (mut dd, mut od) = (false, false);
    let mut gsum = 0usize;
    for i in 0..n {
        let gap = if i == 0 {
            0
        } else {
            let gi = (g % ng) as usize;
            g /= ng;
            gsum += gi;
            gaps[gi]
        };
        let is_o = (keybits >> i) & 1 == 1;
        let e = if is_o {
            od = !od;
            if od {
                In::PO
            } else {
                In::RO
            }
        } else {
            dd = !dd;
            if dd {
                In::PD
            } else {
                In::RD
            }
        };
        evs.push((e, gap));
    }
    // closing releases
    let mut cg = gaps[(gsum + n as usize) % gaps.len()];
    let order: [bool; 2] = if (gsum + keybits as usize) % 2 == 0 { [false, true] } else { [true, false] };
    for is_o in order {
        if is_o && od {
            evs.push((In::RO, cg));
            cg = 1;
            od = false;
        } else if !is_o && dd {
            evs.push((In::RD, cg));
            cg = 1;
            dd = false;
        }
    }
    Some(Sched { evs })
}

/// Systematic "k taps" family: k = 1..=6 taps with a uniform hold and press-to-press distance, the
/// last distance varied separately, optionally an interrupting tap of the other key after the last
/// tap (before or after the final release).
fn tap_family(c: &Conf) -> Vec<Sched> {
    let t = c.t;
    let mut out = vec![];
    let holds = [0u32, 1, t - 1];
    // press-to-press distances; small ones are only meaningful with rapid-event-delay 0
    let pps = [2u32, t - 1, t, t + 1, t + c.r + 3];
    for k in 1..=6u32 {
        for &h in &holds {
            for &pp in &pps {
                if pp <= h {
                    continue;
                }
                for &last_pp in &[pp, t - 1, t, t + 1] {
                    if last_pp <= h {
                        continue;
                    }
                    // interrupt: none, or other key pressed ig ticks after the last press / release
                    for intr in 0..=8u32 {
                        let mut evs: Vec<(In, u32)> = vec![];
                        for i in 0..k {
                            let gap = if i == 0 {
                                0
                            } else if i == k - 1 {
                                last_pp - h
                            } else {
                                pp - h
                            };
                            evs.push((In::PD, gap));
                            if i < k - 1 {
                                evs.push((In::RD, h));
                            }
                        }
                        // last tap: held h, possibly interrupted while held or after release
                        let ig = [0u32, 1, t - 1, t + 1][(intr.saturating_sub(1) % 4) as usize];
                        match intr {
                            0 => evs.push((In::RD, h)),
                            1..=4 => {
                                // other key tapped while the dance key is still held
                                evs.push((In::PO, ig));
                                evs.push((In::RO, 1));
                                evs.push((In::RD, 1));
                            }
                            _ => {
                                evs.push((In::RD, h));
                                evs.push((In::PO, ig));
                                evs.push((In::RO, 1));
                            }
                        }
                        out.push(Sched { evs });
                    }
                }
            }
        }
    }
    out
}

/// Systematic family for lists with tap-hold items: k = 1..=4 taps, every tap but the last held d
/// ticks (d around 0, the tap-hold timeout H and the dance timeout T, so the item gives its tap or
/// its hold action), uniform press-to-press distance from {d+1, T-1, T, T+1, T+rapid+3, d+T-1,
/// d+T+1} - i.e. also "released less than T ago but pressed T or more ago" -, the last tap held
/// d_last, optionally the other key tapped while the last tap is held / after its release.
fn nested_family(c: &Conf) -> Vec<Sched> {
    let Some(th) = c.th else { return vec![] };
    let (t, h, r) = (c.t, th.h, c.r);
    let mut holds = vec![0u32, 1, h - 1, h, h + 1, t - 1, t + 1];
    holds.sort();
    holds.dedup();
    let mut out = vec![];
    for k in 1..=4u32 {
        for (di, &d) in holds.iter().enumerate() {
            let mut pps = vec![d + 1, t - 1, t, t + 1, t + r + 3, d + t - 1, d + t + 1];
            pps.retain(|pp| *pp > d);
            pps.sort();
            pps.dedup();
            for (pi, &pp) in pps.iter().enumerate() {
                if k == 1 && (di > 0 || pi > 0) {
                    continue;
                }
                for &d_last in &holds {
                    for intr in 0..3u32 {
                        let mut evs: Vec<(In, u32)> = vec![];
                        for i in 0..k {
                            evs.push((In::PD, if i == 0 { 0 } else { pp - d }));
                            if i < k - 1 {
                                evs.push((In::RD, d));
                            }
                        }
                        match intr {
                            0 => evs.push((In::RD, d_last)),
                            1 => {
                                evs.push((In::PO, 1));
                                evs.push((In::RO, 1));
                                evs.push((In::RD, d_last.saturating_sub(2)));
                            }
                            _ => {
                                evs.push((In::RD, d_last));
                                evs.push((In::PO, 1));
                                evs.push((In::RO, 1));
                            }
                        }
                        out.push(Sched { evs });
                    }
                }
            }
        }
    }
    out
}

// ------------------------------------------------------------------------------------------------
// reference model

#[derive(Clone, Debug, PartialEq, Eq)]
struct MOut {
    at: u64,
    down: bool,
    key: u8,
}

#[derive(Clone, Debug, Default)]
struct ModelRes {
    outs: Vec<MOut>,
    /// number of boundary decisions met (lazy: presses first seen in the tick the timeout expires)
    boundary: usize,
    /// Some(reason) if the statement does not determine the outcome of this schedule
    undetermined: Option<&'static str>,
    /// (taps counted, ending cause) per decided dance
    dances: Vec<(u8, &'static str)>,
    end_tick: u64,
    /// smallest |press-to-press distance - T| seen between consecutive dance presses (clamped)
    min_boundary_dist: u32,
    /// nested model: tap-hold items decided as tap / as hold / tap by the repress rule
    th_taps: u32,
    th_holds: u32,
    repress_taps: u32,
    /// nested eager model: presses of the dance key processed after ticks in which a tap-hold was
    /// undecided since the previous press; of those, the ones that start a new dance only because
    /// these ticks count (timeout reached with them, not reached without them)
    eager_press_after_wait: u32,
    eager_new_dance_only_with_wait_ticks: u32,
}

const CH_COUNTED: u8 = 0;
const CH_NEWDANCE: u8 = 1;
const CH_SWALLOWED: u8 = 2;

fn model_lazy(c: &Conf, evs: &[(In, u64)], choices: &[u8]) -> ModelRes {
    let mut res = ModelRes { min_boundary_dist: 99, ..Default::default() };
    let t_cfg = c.t as u64;
    let mut q: VecDeque<In> = VecDeque::new();
    let mut next = 0usize;
    let mut pause = 0u32;
    // waiting: (taps counted, timer, queue length at the previous examination)
    let mut waiting: Option<(usize, u64, usize)> = None;
    let mut held: Option<u8> = None;
    let mut tick = 0u64;
    let last_arrival = evs.last().map(|e| e.1).unwrap_or(0);
    loop {
        tick += 1;
        while next < evs.len() && evs[next].1 < tick {
            q.push_back(evs[next].0);
            next += 1;
        }
        if let Some((n, timer, seen)) = waiting {
            let timer = timer.saturating_sub(1);
            let expired = timer == 0;
            // presses of the dance key before the first press of another key
            let mut c_all = 1usize;
            let mut has_o = false;
            let mut d_after_o = 0usize;
            for e in q.iter() {
                match e {
                    In::PD if !has_o => c_all += 1,
                    In::PD => d_after_o += 1,
                    In::PO => has_o = true,
                    _ => {}
                }
            }
            let _ = seen;
            // every press of the dance key that is queued but not counted yet was first seen in this
            // tick (an earlier examination would have counted it or decided); if the timeout expires
            // in this very tick the statement leaves open whether it still belongs to the dance
            let boundary = expired && (c_all > n || d_after_o > 0);
            let mut choice = CH_NEWDANCE;
            if boundary {
                choice = choices.get(res.boundary).copied().unwrap_or(CH_COUNTED);
                res.boundary += 1;
                if choice == CH_COUNTED && c_all == n {
                    // nothing to count before the interrupting key
                    choice = CH_NEWDANCE;
                }
            }
            let d_after_o = d_after_o > 0;
            // decide
            let decided: Option<(usize, &'static str, bool)> = if expired && !(boundary && choice == CH_COUNTED) {
                Some((n, "timeout", boundary && choice == CH_SWALLOWED))
            } else if has_o {
                Some((c_all, "other-key", false))
            } else if c_all >= c.len {
                Some((c_all, "exhausted", false))
            } else {
                None
            };
            match decided {
                Some((cnt, cause, swallow)) => {
                    if cnt > c.len {
                        res.undetermined = Some("more presses queued than list items");
                    }
                    let used = cnt.min(c.len);
                    if swallow {
                        // what the unchanged tree does: every queued press of the dance key is
                        // dropped, but only the releases of the counted taps are
                        let mut rel = used.saturating_sub(1);
                        q.retain(|e| match e {
                            In::PD => false,
                            In::RD if rel > 0 => {
                                rel -= 1;
                                false
                            }
                            _ => true,
                        });
                    } else {
                        // the counted taps collapse into one press held until the final release
                        let mut pr = used.saturating_sub(1);
                        let mut rel = used.saturating_sub(1);
                        q.retain(|e| match e {
                            In::PD if pr > 0 => {
                                pr -= 1;
                                false
                            }
                            In::RD if rel > 0 => {
                                rel -= 1;
                                false
                            }
                            _ => true,
                        });
                        if cause == "other-key" && d_after_o && res.undetermined.is_none() {
                            // a press of the dance key queued behind the interrupting key at the
                            // moment of decision: it starts a new dance (it stays queued)
                            res.undetermined = Some("dance key pressed again behind the interrupting key within one examination");
                        }
                    }
                    res.outs.push(MOut { at: tick, down: true, key: (used - 1) as u8 });
                    held = Some((used - 1) as u8);
                    res.dances.push((cnt.min(9) as u8, cause));
                    pause = c.r;
                    waiting = None;
                }
                None => {
                    let (n2, timer2) = if c_all > n { (c_all, t_cfg) } else { (n, timer) };
                    waiting = Some((n2, timer2, q.len()));
                }
            }
        } else if pause > 0 {
            pause -= 1;
        } else if let Some(e) = q.pop_front() {
            match e {
                In::PD => waiting = Some((1, t_cfg, 0)),
                In::RD => {
                    if let Some(k) = held.take() {
                        res.outs.push(MOut { at: tick, down: false, key: k });
                    }
                }
                In::PO => res.outs.push(MOut { at: tick, down: true, key: OTHER }),
                In::RO => res.outs.push(MOut { at: tick, down: false, key: OTHER }),
            }
        }
        if next >= evs.len() && q.is_empty() && waiting.is_none() && pause == 0 && tick > last_arrival {
            break;
        }
        if tick > last_arrival + 100_000 {
            res.undetermined = Some("model did not terminate");
            break;
        }
    }
    res.end_tick = tick;
    boundary_dist(c, evs, &mut res);
    res
}

fn boundary_dist(c: &Conf, evs: &[(In, u64)], res: &mut ModelRes) {
    let mut last: Option<u64> = None;
    for (e, a) in evs {
        if *e == In::PD {
            if let Some(l) = last {
                let d = (*a - l) as i64 - c.t as i64;
                res.min_boundary_dist = res.min_boundary_dist.min(d.unsigned_abs().min(99) as u32);
            }
            last = Some(*a);
        }
    }
}

fn model_eager(c: &Conf, evs: &[(In, u64)]) -> ModelRes {
    let mut res = ModelRes { min_boundary_dist: 99, ..Default::default() };
    let mut q: VecDeque<In> = VecDeque::new();
    let mut next = 0usize;
    // active dance: (taps so far, timer)
    let mut active: Option<(usize, u64)> = None;
    let mut held: Option<u8> = None;
    let mut tick = 0u64;
    let last_arrival = evs.last().map(|e| e.1).unwrap_or(0);
    let mut cur_taps = 0usize;
    loop {
        tick += 1;
        while next < evs.len() && evs[next].1 < tick {
            q.push_back(evs[next].0);
            next += 1;
        }
        if let Some((n, timer)) = active {
            let timer = timer.saturating_sub(1);
            if timer == 0 || n >= c.len {
                res.dances.push((n as u8, if n >= c.len { "exhausted" } else { "timeout" }));
                active = None;
            } else {
                active = Some((n, timer));
            }
        }
        if let Some(e) = q.pop_front() {
            match e {
                In::PD => {
                    let idx = match active {
                        Some((n, _)) => {
                            active = Some((n + 1, c.t as u64));
                            n
                        }
                        None => {
                            active = Some((1, c.t as u64));
                            0
                        }
                    };
                    cur_taps = idx + 1;
                    if let Some(k) = held.take() {
                        // cannot happen in consistent histories
                        res.outs.push(MOut { at: tick, down: false, key: k });
                    }
                    res.outs.push(MOut { at: tick, down: true, key: idx as u8 });
                    held = Some(idx as u8);
                }
                In::RD => {
                    if let Some(k) = held.take() {
                        res.outs.push(MOut { at: tick, down: false, key: k });
                    }
                }
                In::PO => {
                    if let Some((n, _)) = active.take() {
                        res.dances.push((n as u8, "other-key"));
                    }
                    res.outs.push(MOut { at: tick, down: true, key: OTHER });
                }
                In::RO => res.outs.push(MOut { at: tick, down: false, key: OTHER }),
            }
        }
        let _ = cur_taps;
        if next >= evs.len() && q.is_empty() && active.is_none() && tick > last_arrival {
            break;
        }
        if tick > last_arrival + 100_000 {
            res.undetermined = Some("model did not terminate");
            break;
        }
    }
    res.end_tick = tick;
    boundary_dist(c, evs, &mut res);
    res
}

/// Reference model for lists with tap-hold items, both forms. The dance part is the same as in
/// `model_lazy` / `model_eager`: which list position is performed depends only on the presses of
/// the dance key (timeout counted from the processing of the previous press, on EVERY tick -
/// whatever else is pending), the other key and the list length. Performing a position that holds
/// `(tap-hold tt H tap hold)` starts a tap-hold decision (appendix A): later events wait; the
/// release of the dance key seen with less than H ticks elapsed gives the tap key (and the
/// rapid-event-delay pause), H ticks without it the hold key; the key is held until the release is
/// processed. With a tap repress timeout tt > 0, a tap-hold item performed less than tt ticks
/// after a tap-hold item of the same key started deciding (and no other key in between, and that
/// decision was a tap) gives the tap key at once.
fn model_nested(c: &Conf, evs: &[(In, u64)], choices: &[u8]) -> ModelRes {
    #[derive(Clone, Copy)]
    enum W {
        Dance { n: usize, timer: u64 },
        Th { pos: usize, timer: u64, delay: u64 },
    }
    let th = c.th.unwrap_or(Th { h: 1, tt: 0, mask: 0 });
    let mut res = ModelRes { min_boundary_dist: 99, ..Default::default() };
    let t_cfg = c.t as u64;
    let mut q: VecDeque<(In, u64)> = VecDeque::new();
    let mut next = 0usize;
    let mut pause = 0u32;
    let mut waiting: Option<W> = None;
    // eager dance: (taps so far, timer)
    let mut eager: Option<(usize, u64)> = None;
    // eager: ticks since the previous press of the dance key was processed / of those, ticks in
    // which a tap-hold was undecided (statistics only)
    let mut since_press: Option<(u64, u64, usize)> = None;
    let mut held: Option<u8> = None;
    let mut repress_timer = 0u64;
    let mut tick = 0u64;
    let last_arrival = evs.last().map(|e| e.1).unwrap_or(0);
    // perform list position `pos`
    macro_rules! perform {
        ($pos:expr, $delay:expr) => {{
            let pos: usize = $pos;
            if c.is_th(pos) {
                if th.tt == 0 || repress_timer == 0 {
                    waiting = Some(W::Th { pos, timer: th.h as u64, delay: $delay });
                    repress_timer = th.tt as u64;
                } else {
                    repress_timer = 0;
                    res.repress_taps += 1;
                    res.outs.push(MOut { at: tick, down: true, key: pos as u8 });
                    held = Some(pos as u8);
                }
            } else {
                res.outs.push(MOut { at: tick, down: true, key: pos as u8 });
                held = Some(pos as u8);
            }
        }};
    }
    loop {
        tick += 1;
        while next < evs.len() && evs[next].1 < tick {
            q.push_back(evs[next]);
            next += 1;
        }
        repress_timer = repress_timer.saturating_sub(1);
        let th_pending = matches!(waiting, Some(W::Th { .. }));
        if let Some((e, w, _)) = since_press.as_mut() {
            *e += 1;
            if th_pending {
                *w += 1;
            }
        }
        if let Some((n, timer)) = eager {
            let timer = timer.saturating_sub(1);
            if timer == 0 || n >= c.len {
                res.dances.push((n as u8, if n >= c.len { "exhausted" } else { "timeout" }));
                eager = None;
            } else {
                eager = Some((n, timer));
            }
        }
        match waiting {
            Some(W::Th { pos, timer, delay }) => {
                let timer = timer.saturating_sub(1);
                let rel = q.iter().find(|e| e.0 == In::RD).map(|e| e.1);
                if let Some(arr) = rel {
                    let since = tick - arr;
                    if timer > delay.saturating_sub(since) {
                        res.outs.push(MOut { at: tick, down: true, key: pos as u8 });
                        held = Some(pos as u8);
                        pause = c.r;
                        res.th_taps += 1;
                    } else {
                        res.outs.push(MOut { at: tick, down: true, key: HOLD_BASE + pos as u8 });
                        held = Some(HOLD_BASE + pos as u8);
                        repress_timer = 0;
                        res.th_holds += 1;
                    }
                    waiting = None;
                } else if timer == 0 {
                    res.outs.push(MOut { at: tick, down: true, key: HOLD_BASE + pos as u8 });
                    held = Some(HOLD_BASE + pos as u8);
                    repress_timer = 0;
                    res.th_holds += 1;
                    waiting = None;
                } else {
                    waiting = Some(W::Th { pos, timer, delay });
                }
            }
            Some(W::Dance { n, timer }) => {
                let timer = timer.saturating_sub(1);
                let expired = timer == 0;
                let mut c_all = 1usize;
                let mut has_o = false;
                let mut d_after_o = 0usize;
                for e in q.iter() {
                    match e.0 {
                        In::PD if !has_o => c_all += 1,
                        In::PD => d_after_o += 1,
                        In::PO => has_o = true,
                        _ => {}
                    }
                }
                let boundary = expired && (c_all > n || d_after_o > 0);
                let mut choice = CH_NEWDANCE;
                if boundary {
                    choice = choices.get(res.boundary).copied().unwrap_or(CH_COUNTED);
                    res.boundary += 1;
                    if choice == CH_COUNTED && c_all == n {
                        choice = CH_NEWDANCE;
                    }
                }
                let d_after_o = d_after_o > 0;
                let decided: Option<(usize, &'static str, bool)> = if expired && !(boundary && choice == CH_COUNTED) {
                    Some((n, "timeout", boundary && choice == CH_SWALLOWED))
                } else if has_o {
                    Some((c_all, "other-key", false))
                } else if c_all >= c.len {
                    Some((c_all, "exhausted", false))
                } else {
                    None
                };
                match decided {
                    Some((cnt, cause, swallow)) => {
                        if cnt > c.len {
                            res.undetermined = Some("more presses queued than list items");
                        }
                        let used = cnt.min(c.len);
                        if swallow {
                            let mut rel = used.saturating_sub(1);
                            q.retain(|e| match e.0 {
                                In::PD => false,
                                In::RD if rel > 0 => {
                                    rel -= 1;
                                    false
                                }
                                _ => true,
                            });
                        } else {
                            let mut pr = used.saturating_sub(1);
                            let mut rel = used.saturating_sub(1);
                            q.retain(|e| match e.0 {
                                In::PD if pr > 0 => {
                                    pr -= 1;
                                    false
                                }
                                In::RD if rel > 0 => {
                                    rel -= 1;
                                    false
                                }
                                _ => true,
                            });
                            if cause == "other-key" && d_after_o && res.undetermined.is_none() {
                                res.undetermined = Some("dance key pressed again behind the interrupting key within one examination");
                            }
                        }
                        res.dances.push((cnt.min(9) as u8, cause));
                        waiting = None;
                        perform!(used - 1, 0u64);
                        pause = c.r;
                    }
                    None => {
                        let (n2, timer2) = if c_all > n { (c_all, t_cfg) } else { (n, timer) };
                        waiting = Some(W::Dance { n: n2, timer: timer2 });
                    }
                }
            }
            None => {
                if pause > 0 {
                    pause -= 1;
                } else if let Some((e, arr)) = q.pop_front() {
                    match e {
                        In::PD if c.lazy => waiting = Some(W::Dance { n: 1, timer: t_cfg }),
                        In::PD => {
                            if let Some((el, wt, taps)) = since_press {
                                if wt > 0 && taps < c.len {
                                    // the timer ran through ticks in which a tap-hold was undecided
                                    res.eager_press_after_wait += 1;
                                    if el >= t_cfg && el - wt < t_cfg {
                                        res.eager_new_dance_only_with_wait_ticks += 1;
                                    }
                                }
                            }
                            let idx = match eager {
                                Some((n, _)) => {
                                    eager = Some((n + 1, t_cfg));
                                    n
                                }
                                None => {
                                    eager = Some((1, t_cfg));
                                    0
                                }
                            };
                            since_press = Some((0, 0, idx + 1));
                            if let Some(k) = held.take() {
                                res.outs.push(MOut { at: tick, down: false, key: k });
                            }
                            perform!(idx, tick - arr);
                        }
                        In::RD => {
                            if let Some(k) = held.take() {
                                res.outs.push(MOut { at: tick, down: false, key: k });
                            }
                        }
                        In::PO => {
                            if let Some((n, _)) = eager.take() {
                                res.dances.push((n as u8, "other-key"));
                            }
                            since_press = None;
                            repress_timer = 0;
                            res.outs.push(MOut { at: tick, down: true, key: OTHER });
                        }
                        In::RO => res.outs.push(MOut { at: tick, down: false, key: OTHER }),
                    }
                }
            }
        }
        if next >= evs.len() && q.is_empty() && waiting.is_none() && eager.is_none() && pause == 0 && tick > last_arrival {
            break;
        }
        if tick > last_arrival + 100_000 {
            res.undetermined = Some("model did not terminate");
            break;
        }
    }
    res.end_tick = tick;
    boundary_dist(c, evs, &mut res);
    res
}

// ------------------------------------------------------------------------------------------------
// observation

struct Names {
    w: Vec<String>,
    o: String,
    o_alt: String,
    extra: Vec<String>,
    /// hold witnesses of tap-hold items (lists with tap-hold items only)
    hw: Vec<String>,
}

fn names() -> Names {
    Names {
        w: WITNESS.iter().map(|k| code_name(osc(k))).collect(),
        o: code_name(osc(O_KEY)),
        o_alt: code_name(osc("c")),
        extra: vec![code_name(osc("5"))],
        hw: HOLD_WITNESS.iter().map(|k| code_name(osc(k))).collect(),
    }
}

/// Run the schedule on `sim` (which is idle), return the non-redundant key outputs relative to the
/// start tick, and whether kanata got back to idle with everything up.
fn observe(sim: &mut Sim, c: &Conf, s: &Sched, model_end: u64, nm: &Names) -> (Vec<MOut>, Vec<String>, bool) {
    sim.trace.clear();
    sim.last_step_start = 0;
    let base = sim.now;
    let d = osc(D_KEY);
    let o = osc(O_KEY);
    for (e, g) in &s.evs {
        sim.ticks(*g as u64);
        match e {
            In::PD => sim.press(d),
            In::RD => sim.release(d),
            In::PO => sim.press(o),
            In::RO => sim.release(o),
        }
    }
    let margin = (c.t + c.r + 8) as u64 + if c.special { 40 } else { 0 } + c.th.map(|th| (th.h + th.tt + c.r + 4) as u64).unwrap_or(0);
    let mut target = model_end.max(sim.now - base) + margin;
    let mut settled = false;
    for _round in 0..4 {
        while sim.now - base < target {
            sim.tick();
        }
        let quiet = sim.trace.last().map(|o| sim.now - o.at >= margin.min(20)).unwrap_or(true);
        if sim.is_idle() && sim.os.all_up() && quiet {
            settled = true;
            break;
        }
        target += 150;
    }
    let mut outs = vec![];
    let mut raw = vec![];
    for o in &sim.trace {
        raw.push(o.short_rel(base));
        if o.redundant {
            continue;
        }
        let down = match o.kind {
            OutKind::Down => true,
            OutKind::Up => false,
            _ => {
                outs.push(MOut { at: o.at - base, down: true, key: 200 });
                continue;
            }
        };
        let key = if let Some(i) = nm.w.iter().position(|n| *n == o.name) {
            i as u8
        } else if let (true, Some(i)) = (c.th.is_some(), nm.hw.iter().position(|n| *n == o.name)) {
            HOLD_BASE + i as u8
        } else if o.name == nm.o {
            OTHER
        } else if o.name == nm.o_alt {
            OTHER + 1
        } else if nm.extra.contains(&o.name) {
            50
        } else {
            255
        };
        outs.push(MOut { at: o.at - base, down, key: if o.repress { 254 } else { key } });
    }
    (outs, raw, settled)
}

trait ShortRel {
    fn short_rel(&self, base: u64) -> String;
}
impl ShortRel for crate::core::sim::Out {
    fn short_rel(&self, base: u64) -> String {
        let p = match self.kind {
            OutKind::Down => "↓",
            OutKind::Up => "↑",
            _ => "?",
        };
        format!("{p}{}@{}{}", self.name, self.at - base, if self.redundant { "(redundant)" } else { "" })
    }
}

fn render_outs(v: &[MOut], nm: &Names) -> Vec<String> {
    v.iter()
        .map(|o| {
            let n = match o.key {
                k if (k as usize) < nm.w.len() => nm.w[k as usize].clone(),
                k if k >= HOLD_BASE && ((k - HOLD_BASE) as usize) < nm.hw.len() => nm.hw[(k - HOLD_BASE) as usize].clone(),
                OTHER => nm.o.clone(),
                10 => nm.o_alt.clone(),
                50 => nm.extra[0].clone(),
                254 => "<re-press>".into(),
                _ => "<unexpected>".into(),
            };
            format!("{}{}@{}", if o.down { "↓" } else { "↑" }, n, o.at)
        })
        .collect()
}

fn same_order(a: &[MOut], b: &[MOut]) -> bool {
    a.len() == b.len() && a.iter().zip(b).all(|(x, y)| x.down == y.down && x.key == y.key)
}

/// Invariants that hold whatever the tap count is: nothing unexpected is output, the other key's
/// events come out exactly once each and in order and not before they went in, every witness press
/// is released again, there are no more activations than presses of the dance key.
fn invariants(c: &Conf, s: &Sched, obs: &[MOut], settled: bool) -> Option<(&'static str, String)> {
    if !settled {
        return Some(("stuck", "kanata did not return to idle with every key up after the schedule".into()));
    }
    let arr = s.arrivals();
    let o_in: Vec<(bool, u64)> = arr.iter().filter_map(|(e, a)| match e {
        In::PO => Some((true, *a)),
        In::RO => Some((false, *a)),
        _ => None,
    }).collect();
    let o_out: Vec<&MOut> = obs.iter().filter(|o| o.key == OTHER || o.key == OTHER + 1).collect();
    if o_out.len() != o_in.len() {
        return Some(("interrupting-key-lost", format!("other key: {} events in, {} out", o_in.len(), o_out.len())));
    }
    for (i, (down, a)) in o_in.iter().enumerate() {
        if o_out[i].down != *down {
            return Some(("interrupting-key-reordered", "other key's press/release order changed".into()));
        }
        if o_out[i].at <= *a {
            return Some(("interrupting-key-early", "other key output before its input".into()));
        }
        if !c.special && o_out[i].key != OTHER {
            return Some(("unexpected-key", "other key produced a different key".into()));
        }
    }
    let mut down: Vec<u8> = vec![];
    let mut activations = 0usize;
    for o in obs {
        if o.key == OTHER || o.key == OTHER + 1 {
            continue;
        }
        if o.key >= 200 {
            return Some(("unexpected-output", "an output that is neither a list action nor the other key (or a re-press)".into()));
        }
        let in_list = (o.key as usize) < c.len || (o.key >= HOLD_BASE && c.is_th((o.key - HOLD_BASE) as usize) && ((o.key - HOLD_BASE) as usize) < c.len);
        if !c.special && !in_list {
            return Some(("unexpected-output", "a key that is not in the action list".into()));
        }
        if o.down {
            activations += 1;
            down.push(o.key);
        } else {
            down.retain(|k| *k != o.key);
        }
    }
    let presses = arr.iter().filter(|(e, _)| *e == In::PD).count();
    if !c.special && activations > presses {
        return Some(("activation-count", format!("{activations} activations for {presses} presses of the dance key")));
    }
    if presses > 0 && activations == 0 && !c.special {
        return Some(("activation-count", "dance key pressed but no action performed".into()));
    }
    None
}

struct Judged {
    sig: Option<(String, String)>,
    expected: Vec<MOut>,
    observed: Vec<MOut>,
    raw: Vec<String>,
    model: ModelRes,
    swallowed_match: bool,
}

fn judge(sim: &mut Sim, c: &Conf, s: &Sched, nm: &Names) -> Judged {
    let arr = s.arrivals();
    let run_model = |ch: &[u8]| {
        if c.th.is_some() {
            model_nested(c, &arr, ch)
        } else if c.lazy {
            model_lazy(c, &arr, ch)
        } else {
            model_eager(c, &arr)
        }
    };
    let base_model = run_model(&[]);
    // alternatives at boundary decisions: explore the tree of choices (a choice can create or
    // remove later boundary situations)
    let mut alts: Vec<(Vec<u8>, ModelRes)> = vec![];
    if base_model.boundary == 0 || c.special {
        alts.push((vec![], base_model.clone()));
    } else {
        let mut stack: Vec<Vec<u8>> = vec![vec![]];
        while let Some(ch) = stack.pop() {
            let m = run_model(&ch);
            if m.boundary > ch.len() && ch.len() < 6 {
                for x in [CH_SWALLOWED, CH_NEWDANCE, CH_COUNTED] {
                    let mut ch2 = ch.clone();
                    ch2.push(x);
                    stack.push(ch2);
                }
            } else {
                alts.push((ch, m));
            }
        }
    }
    let end = alts.iter().map(|(_, m)| m.end_tick).max().unwrap_or(base_model.end_tick);
    let (obs, raw, settled) = observe(sim, c, s, end, nm);
    let form = if c.lazy { "lazy" } else { "eager" };
    // lists with tap-hold items have signatures of their own
    let form = if c.th.is_some() { format!("{form}:tap-hold-item") } else { form.to_string() };
    let mut j = Judged { sig: None, expected: base_model.outs.clone(), observed: obs.clone(), raw, model: base_model.clone(), swallowed_match: false };
    if let Some((k, what)) = invariants(c, s, &obs, settled) {
        j.sig = Some((format!("C17:{form}:invariant:{k}"), what));
        return j;
    }
    if c.special {
        return j;
    }
    if alts.iter().any(|(_, m)| m.undetermined.is_some()) {
        j.model.undetermined = alts.iter().find_map(|(_, m)| m.undetermined);
        return j;
    }
    let ok = alts.iter().find(|(ch, m)| !ch.contains(&CH_SWALLOWED) && m.outs == obs);
    if let Some((_, m)) = ok {
        j.expected = m.outs.clone();
        j.model.dances = m.dances.clone();
        return j;
    }
    if let Some((_, m)) = alts.iter().find(|(ch, m)| ch.contains(&CH_SWALLOWED) && m.outs == obs) {
        j.swallowed_match = true;
        j.expected = alts.iter().find(|(ch, _)| !ch.contains(&CH_SWALLOWED)).map(|x| x.1.outs.clone()).unwrap_or_default();
        let _ = m;
        j.sig = Some((
            if c.th.is_some() { "C17:lazy:tap-hold-item:press-at-exact-timeout-swallowed".into() } else { "C17:lazy:press-at-exact-timeout-swallowed".into() },
            "a press of the dance key arriving exactly T ticks after the previous one is neither counted nor starts a new dance: it is dropped".into(),
        ));
        return j;
    }
    // classify against the accepted alternatives (closest first: the one agreeing in order)
    let accepted: Vec<&ModelRes> = alts.iter().filter(|(ch, _)| !ch.contains(&CH_SWALLOWED)).map(|x| &x.1).collect();
    let class = if accepted.iter().any(|m| same_order(&m.outs, &obs)) {
        "timing"
    } else {
        let m = accepted[0];
        let is_act = |k: u8| k < OTHER || (HOLD_BASE..HOLD_BASE + 4).contains(&k);
        let acts = |v: &[MOut]| v.iter().filter(|o| o.down && is_act(o.key)).map(|o| o.key).collect::<Vec<_>>();
        let pos = |v: &[u8]| v.iter().map(|k| if *k >= HOLD_BASE { *k - HOLD_BASE } else { *k }).collect::<Vec<_>>();
        let (ea, oa) = (acts(&m.outs), acts(&obs));
        if ea.len() != oa.len() {
            "activation-count"
        } else if pos(&ea) != pos(&oa) {
            "wrong-action"
        } else if ea != oa {
            // the right list position, but the tap-hold item there gave its other action
            "tap-hold-item-decision"
        } else {
            "order-or-hold"
        }
    };
    j.expected = accepted[0].outs.clone();
    j.sig = Some((
        format!("C17:{form}:{class}"),
        match class {
            "timing" => "the expected keys in the expected order, but in different ticks".to_string(),
            "activation-count" => "number of performed actions differs from the model".to_string(),
            "wrong-action" => "a different list position was performed than the tap count selects".to_string(),
            "tap-hold-item-decision" => "the list position the tap count selects was performed, but its tap-hold item gave the hold action for a tap or the tap action for a hold".to_string(),
            _ => "the chosen action is not held until the final release / the other key is not processed after it".to_string(),
        },
    ));
    j
}

// ------------------------------------------------------------------------------------------------
// cases

const CHUNK_Q: u64 = 4096;
const CHUNK_T: u64 = 16384;

fn nmax(ctx: &Ctx, c: &Conf) -> u32 {
    if c.special || c.th.is_some() {
        ctx.tier.sel(5, 6)
    } else {
        match (ctx.tier, c.t) {
            (crate::core::Tier::Quick, _) => 6,
            (crate::core::Tier::Thorough, 3) => 8,
            (crate::core::Tier::Thorough, _) => 7,
        }
    }
}

/// (config index, first schedule, last schedule (exclusive)); chunk 0 of each config also runs the
/// tap family
fn case_layout(ctx: &Ctx) -> Vec<(usize, u64, u64)> {
    let chunk = ctx.tier.sel(CHUNK_Q, CHUNK_T);
    let mut v = vec![];
    for (ci, c) in configs().iter().enumerate() {
        let tot = total_exhaustive(nmax(ctx, c), c.gaps().len() as u64);
        let mut s = 0;
        while s < tot {
            v.push((ci, s, (s + chunk).min(tot)));
            s += chunk;
        }
    }
    v
}

/// cases of the configurations with several tap-dance keys (they follow the single-key cases):
/// (config index in `multi::configs()`, first schedule, last schedule (exclusive)); chunk 0 of each
/// config also runs the interleaved-taps family
fn multi_layout(ctx: &Ctx) -> Vec<(usize, u64, u64)> {
    let chunk = ctx.tier.sel(CHUNK_Q, CHUNK_T);
    let mut v = vec![];
    for (ci, c) in multi::configs().iter().enumerate() {
        let tot = multi::total(ctx.tier, c);
        let mut s = 0;
        while s < tot {
            v.push((ci, s, (s + chunk).min(tot)));
            s += chunk;
        }
    }
    v
}

impl Check for C17Check {
    fn id(&self) -> &'static str {
        "C17"
    }
    fn n_cases(&self, ctx: &Ctx) -> u64 {
        (case_layout(ctx).len() + multi_layout(ctx).len()) as u64
    }
    fn describe(&self, ctx: &Ctx, idx: u64) -> Value {
        let lay = case_layout(ctx);
        if idx as usize >= lay.len() {
            let ml = multi_layout(ctx);
            let Some(&(ci, a, b)) = ml.get(idx as usize - lay.len()) else { return Value::Null };
            return multi::describe(ctx.tier, ci, a, b);
        }
        let Some(&(ci, a, b)) = lay.get(idx as usize) else { return Value::Null };
        let c = &configs()[ci];
        json!({"config": c.text(), "schedules": format!("exhaustive schedules #{a}..#{b} (up to {} events)", nmax(ctx, c))})
    }
    fn run_case(&self, ctx: &Ctx, idx: u64) -> CaseOut {
        let mut out = CaseOut::new();
        let lay = case_layout(ctx);
        if idx as usize >= lay.len() {
            let ml = multi_layout(ctx);
            let Some(&(ci, a, b)) = ml.get(idx as usize - lay.len()) else { return out };
            return multi::run_case(ctx, ci, a, b);
        }
        let Some(&(ci, a, b)) = lay.get(idx as usize) else { return out };
        let confs = configs();
        let c = &confs[ci];
        let nm = names();
        let cfg = c.text();
        let mut sim = match Sim::new(&cfg) {
            Ok(s) => s,
            Err(e) => {
                out.inconclusive = Some(format!("config rejected: {}", e.lines().next().unwrap_or("")));
                return out;
            }
        };
        let n_max = nmax(ctx, c);
        let gaps = c.gaps();
        let mut scheds: Vec<Sched> = (a..b).filter_map(|s| exhaustive_sched(s, n_max, &gaps)).collect();
        out.count("schedules_exhaustive", scheds.len() as u64);
        if a == 0 && c.th.is_some() {
            let fam = nested_family(c);
            out.count("schedules_tap_hold_item_family", fam.len() as u64);
            scheds.extend(fam);
        } else if a == 0 && !c.special {
            let fam = tap_family(c);
            out.count("schedules_tap_family", fam.len() as u64);
            scheds.extend(fam);
        }
        // counters of lists with tap-hold items are kept apart (prefix th_)
        let form = match (c.th.is_some(), c.lazy) {
            (false, true) => "lazy",
            (false, false) => "eager",
            (true, true) => "th_lazy",
            (true, false) => "th_eager",
        };
        let mut prev: Option<Sched> = None;
        let mut reported: std::collections::BTreeSet<String> = Default::default();
        for s in scheds {
            let j = judge(&mut sim, c, &s, &nm);
            let mut final_j = j;
            let mut hist = s.hist();
            if final_j.sig.is_some() {
                // confirm on a fresh instance (the running one has processed earlier schedules)
                match Sim::new(&cfg) {
                    Ok(mut fresh) => {
                        let jf = judge(&mut fresh, c, &s, &nm);
                        if jf.sig.is_none() {
                            // not reproducible alone: try together with the preceding schedule
                            let mut confirmed = false;
                            if let Some(p) = &prev {
                                if let Ok(mut fresh2) = Sim::new(&cfg) {
                                    let mut both = p.clone();
                                    let idle = c.t + c.r + 200;
                                    let mut first = true;
                                    for (e, g) in &s.evs {
                                        both.evs.push((*e, if first { idle } else { *g }));
                                        first = false;
                                    }
                                    let jb = judge(&mut fresh2, c, &both, &nm);
                                    if jb.sig.is_some() {
                                        hist = both.hist();
                                        final_j = jb;
                                        confirmed = true;
                                    }
                                }
                            }
                            if !confirmed {
                                out.inc("mismatch_not_reproduced_on_fresh_instance");
                                out.inconclusive = Some("a mismatch seen on a re-used instance did not reproduce on a fresh one".into());
                                // re-create the running instance to be safe
                                if let Ok(s2) = Sim::new(&cfg) {
                                    sim = s2;
                                }
                                prev = Some(s);
                                continue;
                            }
                        } else {
                            final_j = jf;
                        }
                    }
                    Err(_) => {}
                }
                // the running instance may be in an odd state after a violation
                if let Ok(s2) = Sim::new(&cfg) {
                    sim = s2;
                }
            }
            let j = final_j;
            out.inc("schedules");
            if c.special {
                out.inc("judged_by_invariants_special_items");
            } else if j.model.undetermined.is_some() {
                out.inc("judged_by_invariants_undetermined");
            } else {
                out.inc("judged_by_model");
                out.inc(&format!("judged_by_model_{form}"));
                for (n, cause) in &j.model.dances {
                    out.inc(&format!("{form}_dances_ended_by_{cause}"));
                    out.inc(&format!("{form}_dances_with_taps_{}", (*n).min(5)));
                }
                if j.model.min_boundary_dist <= 1 {
                    out.inc(&format!("{form}_schedules_with_press_distance_T{}", match j.model.min_boundary_dist { 0 => "", _ => "±1" }));
                }
                if j.model.boundary > 0 {
                    out.inc(if c.th.is_some() { "th_lazy_boundary_decisions" } else { "lazy_boundary_decisions" });
                }
                if c.th.is_some() {
                    out.count(&format!("{form}_items_decided_tap"), j.model.th_taps as u64);
                    out.count(&format!("{form}_items_decided_hold"), j.model.th_holds as u64);
                    out.count(&format!("{form}_items_tap_by_repress"), j.model.repress_taps as u64);
                    if !c.lazy {
                        out.count("th_eager_presses_after_undecided_ticks", j.model.eager_press_after_wait as u64);
                        out.count("th_eager_new_dance_only_because_undecided_ticks_count", j.model.eager_new_dance_only_with_wait_ticks as u64);
                    }
                }
                if !j.model.dances.is_empty() {
                    let d: Vec<String> = j.model.dances.iter().map(|(n, c)| format!("{n}{}", &c[..1])).collect();
                    let has_o = s.evs.iter().any(|(e, _)| *e == In::PO);
                    out.tag(format!("{}|{}|o{}", c.label(), d.join(","), has_o as u8));
                }
            }
            if let Some((sig, what)) = &j.sig {
                if j.swallowed_match {
                    out.inc("lazy_press_at_exact_timeout_swallowed");
                }
                if reported.insert(sig.clone()) {
                    out.violate(
                        sig.clone(),
                        format!("{} {}: {what}", c.label(), render_hist(&hist)),
                        json!({
                            "config": cfg,
                            "history": render_hist(&hist),
                            "observed": render_outs(&j.observed, &nm),
                            "observed_raw": j.raw,
                            "expected": render_outs(&j.expected, &nm),
                            "model_dances": j.model.dances.iter().map(|(n, c)| format!("{n} taps, ended by {c}")).collect::<Vec<_>>(),
                            "note": "ticks are relative to the first event; an output @n is produced by the n-th tick after it",
                        }),
                    );
                }
                if ctx.verbose {
                    eprintln!("{sig}: {} observed {:?} expected {:?}", render_hist(&hist), render_outs(&j.observed, &nm), render_outs(&j.expected, &nm));
                }
            }
            if out.sample.is_none() && a == 0 && s.evs.len() >= 5 && !j.model.dances.is_empty() && ci % 7 == 0 {
                out.sample = Some(json!({"config": cfg, "history": render_hist(&hist), "observed": render_outs(&j.observed, &nm), "expected": render_outs(&j.expected, &nm)}));
            }
            prev = Some(s);
        }
        out
    }
    fn rule(&self) -> String {
        "case = one configuration (action lists of 1-4 distinct witness keys x lazy `tap-dance` / `tap-dance-eager` x timeout T in {3,60} x rapid-event-delay {0,5}; plus 4 configurations whose list holds a layer-while-held and a tap-hold item, judged by invariants only; plus 56 configurations whose list holds tap-hold items with distinct tap and hold witness keys: (T, tap-hold timeout H, rapid-event-delay) in {(3,2,0),(3,5,5),(60,20,5),(60,75,0)} x tap-hold positions {10,01,11,101,010} with tap repress timeout 0 and {10,11} with tap repress timeout H x lazy/eager, judged by the model like the plain lists, with N=5/6, gaps additionally {H-1,H}, and instead of the tap family a family of 1-4 taps with holds {0,1,H-1,H,H+1,T-1,T+1}, press distances {d+1,T-1,T,T+1,T+rapid+3,d+T-1,d+T+1}, last hold varied separately, optional interrupting tap) and a chunk of the exhaustive schedule space: every sequence of up to N events (quick N=6; thorough N=8 for T=3, N=7 for T=60; 5/6 for the special lists), each event the toggle of the dance key or of one other key, with every combination of inter-event gaps from {0,1,T-1,T,T+1}, keys still down released afterwards; plus a systematic family of 1-6 taps (holds {0,1,T-1}, press distances {2,T-1,T,T+1,T+rapid+3}, optional interrupting tap before/after the final release). Every schedule runs on the real code and is compared tick by tick with the reference model (key, down/up, tick) unless the statement does not determine it (more presses queued within one examination than list items; special list items), in which case only the invariants are judged. Non-trivial = a schedule with at least one decided dance judged by the model; distinct = (configuration, sequence of (tap count, ending cause), interrupting key present). SEVERAL TAP-DANCE KEYS (cases after the single-key ones): 27 configurations in which two or three keys of the layer are tap-dance keys with witness keys of their own - form pairs eager+eager / eager+lazy / lazy+lazy x (list lengths, timeouts, rapid-event-delay) in {((3,3),(3,3),0), ((2,3),(3,3),5), ((1,2),(3,3),5), ((3,2),(60,60),5), ((2,4),(3,5),0), ((3,2),(60,40),0)}, lazy+eager with lengths (2,3)/(3,2), and three keys: eager+eager+plain, eager+lazy+plain, lazy+lazy+plain, eager+eager+eager, eager+eager+lazy, eager+lazy+lazy, lazy+lazy+lazy (T=3, lengths 2-3) - each with a chunk of the exhaustive schedule space: every sequence of up to N events (two keys: quick N=6, N=5 with two different timeouts; thorough N=7 for lengths (3,3), N=6 for timeouts (3,5); three keys: N=5, thorough N=6 with a plain third key), each event the toggle of one of the two / three keys, with every combination of gaps from {0,1} and {T-1,T,T+1} of every timeout, keys still down released afterwards; plus the interleaved-taps family: every sequence of 2-6 taps (2-4 with three keys) over the keys that uses at least two keys x hold {0,1,Tmin-1} x uniform press-to-press distance {2, T/2, T/2+1, T-1, T, T+1 per timeout, Tmax+rapid+3} x released before the next press / only after the next press of a different key (rolling). Every schedule is compared tick by tick with the per-key reference model (the running dance ends at the press of any other key; the pressed key starts its own dance at its first action); distinct = (configuration, sequence of (key, tap count, ending cause)).".into()
    }
    fn assumptions(&self) -> Vec<String> {
        vec![
            "processing discipline as in DESIGN appendix A: one queued event per tick in arrival order, a lazy decision pauses event processing for rapid-event-delay ticks; the timeout of a dance counts from the tick its first press is processed".into(),
            "a press first seen in the tick the lazy timeout expires (distance exactly T) may be counted or start a new dance; both are accepted".into(),
            "schedules where more presses of the dance key are visible in one examination than the list has items left, or where the dance key is pressed again behind the interrupting key within one examination, are judged by invariants only (needs same-millisecond events or taps faster than rapid-event-delay)".into(),
            "lists containing a layer-while-held item are judged by invariants only (nothing stuck, other key neither lost nor reordered nor early, no unexpected output)".into(),
            "lists with tap-hold items: which position is performed follows the same dance rules as for plain keys (the timeout counts every tick from the processing of the previous press of the dance key, also while a tap-hold decision is pending and later events wait); the item performed decides as a plain tap-hold does (appendix A: tap iff the release arrives less than H after the press, tap action followed by the rapid-event-delay pause, hold action at H; a press within the tap repress timeout of the start of a previous tap decision of the same key, with no other key in between, gives the tap action at once). An item performed by a LAZY dance starts deciding in the tick the dance is decided - the guide does not say whether the time the key was held before should count; a different decision at the right position has its own signature (tap-hold-item-decision)".into(),
            "only plain `tap-hold` items are modelled (not tap-hold-press / -release variants, nested tap-dances or chords); in the single-key families the interrupting key is a plain key".into(),
            "several tap-dance keys: the statement is read per key - 'another key is pressed' includes another tap-dance key, whose own dance starts at its first action with that press; a key tapped again after another key's press starts a new dance (first action) even if less than its timeout has passed since its previous tap. An eager dance is ended when the other key's press is PROCESSED (events are consumed one per tick, so presses of the same millisecond are processed in arrival order); a lazy dance when the press is seen in the queue. The lists of these configurations hold plain witness keys only (no tap-hold items), at most one lazy dance is undecided at a time by construction (later events wait behind it), and the same two undetermined situations as for one key are judged by invariants only".into(),
            "schedules are physically consistent (press only when up, release only when down) and many schedules run on one kanata instance separated by idle periods; a mismatch is re-judged on a fresh instance before it is reported".into(),
        ]
    }
    fn floors(&self, _ctx: &Ctx) -> Vec<(&'static str, u64)> {
        vec![
            ("judged_by_model_lazy", 100_000),
            ("judged_by_model_eager", 100_000),
            ("lazy_dances_ended_by_timeout", 10_000),
            ("lazy_dances_ended_by_other-key", 10_000),
            ("lazy_dances_ended_by_exhausted", 10_000),
            ("eager_dances_ended_by_timeout", 10_000),
            ("eager_dances_ended_by_other-key", 10_000),
            ("eager_dances_ended_by_exhausted", 10_000),
            ("lazy_dances_with_taps_3", 1_000),
            ("eager_dances_with_taps_3", 1_000),
            ("lazy_dances_with_taps_4", 10),
            ("eager_dances_with_taps_4", 10),
            ("lazy_boundary_decisions", 100),
            // lists with tap-hold items
            ("judged_by_model_th_lazy", 500_000),
            ("judged_by_model_th_eager", 500_000),
            ("th_lazy_items_decided_tap", 100_000),
            ("th_lazy_items_decided_hold", 50_000),
            ("th_eager_items_decided_tap", 100_000),
            ("th_eager_items_decided_hold", 100_000),
            ("th_lazy_items_tap_by_repress", 1_000),
            ("th_eager_items_tap_by_repress", 1_000),
            ("th_lazy_dances_with_taps_2", 10_000),
            ("th_eager_dances_with_taps_2", 10_000),
            ("th_lazy_dances_with_taps_3", 500),
            ("th_eager_dances_with_taps_3", 500),
            ("th_lazy_boundary_decisions", 1_000),
            // the eager timeout observed across ticks in which a tap-hold item was undecided, and
            // presses that start a new dance only because those ticks count
            ("th_eager_presses_after_undecided_ticks", 50_000),
            ("th_eager_new_dance_only_because_undecided_ticks_count", 10_000),
            // several tap-dance keys in one configuration: schedules judged by the per-key model,
            // by which forms dance together
            ("multi_judged_by_model_eager_eager", 500_000),
            ("multi_judged_by_model_eager_lazy", 500_000),
            ("multi_judged_by_model_lazy_lazy", 500_000),
            ("multi_judged_by_model_3keys_eager_eager", 50_000),
            ("multi_judged_by_model_3keys_eager_lazy", 50_000),
            ("multi_judged_by_model_3keys_lazy_lazy", 50_000),
            ("multi_judged_by_model_3keys_eager_eager_eager", 50_000),
            ("multi_judged_by_model_3keys_eager_eager_lazy", 50_000),
            ("multi_judged_by_model_3keys_eager_lazy_lazy", 50_000),
            ("multi_judged_by_model_3keys_lazy_lazy_lazy", 50_000),
            ("multi_schedules_interleaved_taps_family", 50_000),
            ("multi_schedules_with_dances_of_2plus_keys", 500_000),
            ("multi_schedules_with_dances_of_3_keys", 10_000),
            // a running dance ended by the press of another TAP-DANCE key, by (form ended, form of
            // the pressed key)
            ("multi_eager_dances_ended_by_eager_key", 100_000),
            ("multi_eager_dances_ended_by_lazy_key", 100_000),
            ("multi_lazy_dances_ended_by_eager_key", 100_000),
            ("multi_lazy_dances_ended_by_lazy_key", 100_000),
            ("multi_eager_dances_ended_by_plain_key", 10_000),
            ("multi_lazy_dances_ended_by_plain_key", 10_000),
            // the dance that such a press started went on to its second / third action
            ("multi_eager_dances_of_2plus_taps_started_by_ending_eager_dance", 5_000),
            ("multi_eager_dances_of_2plus_taps_started_by_ending_lazy_dance", 5_000),
            ("multi_lazy_dances_of_2plus_taps_started_by_ending_eager_dance", 5_000),
            ("multi_lazy_dances_of_2plus_taps_started_by_ending_lazy_dance", 5_000),
            ("multi_eager_dances_of_3plus_taps_started_by_ending_eager_dance", 200),
            ("multi_eager_dances_of_3plus_taps_started_by_ending_lazy_dance", 200),
            ("multi_lazy_dances_of_3plus_taps_started_by_ending_eager_dance", 200),
            ("multi_lazy_dances_of_3plus_taps_started_by_ending_lazy_dance", 200),
            // taps of a key inside its own timeout with a press of another key in between
            ("multi_presses_inside_own_timeout_after_other_key", 20_000),
            ("multi_lazy_boundary_decisions", 10_000),
        ]
    }
    fn exhaustive(&self, _ctx: &Ctx) -> bool {
        true
    }
}
