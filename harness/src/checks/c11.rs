//! C11 — key identity: every key name and code survives the trip from config to OS output.
//!
//! (1) exhaustive stepper run for every code 0..=766 the OS layer knows, in four identity
//!     configurations; (2) every key name literal of `str_to_oscode` (extracted from the current
//!     sources at run time) denotes the same, pinned, code in every position of the language;
//! (3) `OsCode` and `KeyCode` coincide value for value (natively and in the enum declarations of the
//!     current sources, against pinned tables cross-checked with the kernel header);
//! (4) `Cfg.mapped_keys` equals the set computed from the generator's own description;
//! (5) the reserved no-op codes never reach the OS on ANY output path (c11_paths.rs): a scenario
//!     family that types a key through sequences (three input modes x completed / invalid key /
//!     timeout / cancelled by the key itself / held over the cancel / shifted / leader in a macro),
//!     macros, dynamic macro replay, zippychord (bystander input and mapped output character),
//!     unmod/unshift, overrides, one-shot, chords v1/v2, tap-hold, tap-dance, fork/switch/multi,
//!     modifier prefixes, rpt/rpt-any, virtual keys, caps-word, layers; each with nop0..nop9 and with
//!     a control key that proves the path writes the typed key; designed + seeded random histories;
//! (6) the defsrc layer is the identity under every defcfg option combination
//!     (delegate-to-first-layer x transparent-key-resolution x block-unmapped-keys x
//!     process-unmapped-keys): a key mapped to `use-defsrc` directly, by deflayermap input or by a
//!     deflayermap wildcard (_ __ ___), or transparent above an identity, on a held / switched /
//!     held-over-switched layer or on the first layer itself comes out as itself whatever the first
//!     layer maps it to; the `src_keys` row handed to the layout is the identity;
//! (7) coordinate (0,0) (code 0, "index 0 of every layer") is a no-op on every layer whatever the
//!     layer's fill rules are (c11_cell0.rs): an action written through a deflayermap any-key entry
//!     (_ __ ___) or through an explicit entry for a local key bound to number 0 never ends up in
//!     cell 0, and the features that inject events at (0,0) - defchordsv2 activation / release, the
//!     fake presses of macros / sequences / one-shot, a device that really emits code 0 - never
//!     perform it: no extra output, no layer change. Cell 0 of every layer is also inspected in
//!     the configurations of parts (4) and (6);
//! (8) a deflocalkeys-linux name that coincides with a built-in key name (`z 21`, `y 44`, `< 41`,
//!     `lsft 30`, `; 39` ...) denotes the configured number at every site, and the names that were
//!     not redefined keep their built-in code (c11_local.rs): every pinned key name x 2 codes on the
//!     parsed configuration (str_to_oscode, defsrc, action, deflayermap input, fork, switch key /
//!     key-history / input, unmod, S- prefix, multi, tap-hold, one-shot, defvar, release-key, macro,
//!     defoverrides in / out, all-except, bystander names), every pinned key name x 15 single-site
//!     configurations on a real Kanata driven with the bound physical code (also tap-hold key lists,
//!     defchordsv2 participants, defseq keys, caps-word-custom lists) against the same configuration
//!     with a brand-new name, and seeded blocks of 1-4 redefined names (swaps, rotations, two
//!     names for one code). The random mapped-set configurations of part (4) also bind built-in
//!     names to other codes and write them in defsrc / all-except / deflayermap inputs.
//! (9) the key names of a configuration are its own also when the process has read other
//!     configurations before (c11_seq.rs): sequences of 2-5 configurations - with / without a
//!     deflocalkeys-linux block, with only a block of another platform, with different blocks that
//!     redefine built-in names (; ' [ - ...) and add new ones (ü ...) - are read through
//!     cfg::new_from_str, cfg::new_from_file and by a real Kanata started from the files and sent
//!     through them with lrld-next (real handle_time_ticks -> do_live_reload), without resetting
//!     the parser's process-global name table in between; every configuration must be
//!     accepted / refused, have the mapped keys, layer cells, overrides and name look-ups of the
//!     same configuration read alone in a fresh table and those computed from its own names, and
//!     on the running Kanata its keys pressed by physical code come out as the actions written.

#[path = "c11_ref.rs"]
mod refs;
#[path = "c11_paths.rs"]
mod paths;
#[path = "c11_cell0.rs"]
mod cell0;
#[path = "c11_local.rs"]
mod local;
#[path = "c11_seq.rs"]
mod seq;

use crate::core::rng::Rng;
use crate::core::sim::{render_hist, Ev, OutKind, Sim};
use crate::core::{CaseOut, Check, Ctx};
use kanata_keyberon::action::{Action, Switch};
use kanata_keyberon::key_code::KeyCode;
use kanata_keyberon::layout::HistoricalEvent;
use kanata_parser::cfg::OverrideStates;
use kanata_parser::custom_action::CustomAction;
use kanata_parser::keys::{str_to_oscode, OsCode};
use serde_json::{json, Value};
use std::collections::BTreeSet;
use std::sync::OnceLock;

pub struct C11Check;
pub static C11: C11Check = C11Check;

// ------------------------------------------------------------------ sources of the tree under test

/// root of the repository the harness was built against (from the harness's own Cargo.toml)
fn repo_root() -> String {
    let toml = std::fs::read_to_string(concat!(env!("CARGO_MANIFEST_DIR"), "/Cargo.toml")).unwrap_or_default();
    for line in toml.lines() {
        if line.trim_start().starts_with("kanata-parser") {
            if let Some(i) = line.find("path") {
                let rest = &line[i..];
                if let (Some(a), Some(b)) = (rest.find('"'), rest.rfind("/parser\"")) {
                    if a + 1 <= b {
                        return rest[a + 1..b].to_string();
                    }
                }
            }
        }
    }
    "/repo".into()
}

fn unescape(s: &str) -> String {
    let mut out = String::new();
    let mut it = s.chars();
    while let Some(c) = it.next() {
        if c == '\\' {
            match it.next() {
                Some('n') => out.push('\n'),
                Some('t') => out.push('\t'),
                Some(x) => out.push(x),
                None => {}
            }
        } else {
            out.push(c);
        }
    }
    out
}

/// string literals of one source line (no raw strings occur in these tables)
fn literals(line: &str) -> Vec<String> {
    let mut out = vec![];
    let b: Vec<char> = line.chars().collect();
    let mut i = 0;
    while i < b.len() {
        if b[i] == '"' {
            let mut j = i + 1;
            let mut cur = String::new();
            while j < b.len() && b[j] != '"' {
                if b[j] == '\\' && j + 1 < b.len() {
                    cur.push(b[j]);
                    cur.push(b[j + 1]);
                    j += 2;
                } else {
                    cur.push(b[j]);
                    j += 1;
                }
            }
            out.push(unescape(&cur));
            i = j + 1;
        } else if b[i] == '/' && i + 1 < b.len() && b[i + 1] == '/' {
            break;
        } else {
            i += 1;
        }
    }
    out
}

/// (name, OsCode variant it is written to denote) for every literal that applies on Linux
fn extract_names(src: &str) -> Vec<(String, String)> {
    let mut out = vec![];
    let Some(f) = src.find("pub fn str_to_oscode") else { return out };
    let body = &src[f..];
    let (Some(a), Some(b)) = (body.find("Some(match s {"), body.find("_ => return")) else { return out };
    let mut cfg_attr: Option<String> = None;
    for line in body[a..b].lines().skip(1) {
        let t = line.trim();
        if t.starts_with("#[cfg(") {
            cfg_attr = Some(t.to_string());
            continue;
        }
        if !t.starts_with('"') {
            if !t.is_empty() && !t.starts_with("//") {
                cfg_attr = None;
            }
            continue;
        }
        let applies = cfg_attr.as_ref().map(|c| c.contains("target_os = \"linux\"")).unwrap_or(true);
        cfg_attr = None;
        let Some(arrow) = t.rfind("=>") else { continue };
        let target = t[arrow + 2..].trim().trim_end_matches(',').trim();
        let Some(variant) = target.strip_prefix("OsCode::") else { continue };
        if applies {
            for l in literals(&t[..arrow]) {
                out.push((l, variant.to_string()));
            }
        }
    }
    if let Some(d) = src.find("const DEFAULT_MAPPINGS") {
        let dm = &src[d..];
        if let Some(e) = dm.find("];") {
            for line in dm[..e].lines() {
                let t = line.trim();
                if !t.starts_with("(\"") {
                    continue;
                }
                let ls = literals(t);
                if let (Some(name), Some(p)) = (ls.first(), t.find("OsCode::")) {
                    let v: String = t[p + 8..].chars().take_while(|c| c.is_ascii_alphanumeric() || *c == '_').collect();
                    out.push((name.clone(), v));
                }
            }
        }
    }
    out
}

/// variants of `pub enum <name> { ... }` with their discriminants
fn extract_enum(src: &str, name: &str) -> Vec<(String, u32)> {
    let mut out = vec![];
    let Some(a) = src.find(&format!("pub enum {name} {{")) else { return out };
    let body = &src[a..];
    let Some(e) = body.find("\n}") else { return out };
    let mut next = 0u32;
    for line in body[..e].lines().skip(1) {
        let t = line.split("//").next().unwrap_or("").trim();
        if t.is_empty() || t.starts_with('#') {
            continue;
        }
        let t = t.trim_end_matches(',');
        let (n, v) = match t.split_once('=') {
            Some((n, v)) => {
                let v = v.trim();
                let val = if let Some(h) = v.strip_prefix("0x") { u32::from_str_radix(h, 16).ok() } else { v.parse().ok() };
                (n.trim(), val)
            }
            None => (t, None),
        };
        if !n.chars().all(|c| c.is_ascii_alphanumeric() || c == '_') || n.is_empty() {
            continue;
        }
        if let Some(v) = v {
            next = v;
        }
        out.push((n.to_string(), next));
        next += 1;
    }
    out
}

struct Sources {
    root: String,
    names: Vec<(String, String)>,
    keycode_enum: Vec<(String, u32)>,
    oscode_enum: Vec<(String, u32)>,
}

fn sources() -> &'static Sources {
    static S: OnceLock<Sources> = OnceLock::new();
    S.get_or_init(|| {
        let root = repo_root();
        let keys_src = std::fs::read_to_string(format!("{root}/parser/src/keys/mod.rs")).unwrap_or_default();
        let kc_src = std::fs::read_to_string(format!("{root}/keyberon/src/key_code.rs")).unwrap_or_default();
        Sources { names: extract_names(&keys_src), keycode_enum: extract_enum(&kc_src, "KeyCode"), oscode_enum: extract_enum(&keys_src, "OsCode"), root }
    })
}

fn pinned_keycode_names() -> Vec<&'static str> {
    refs::KEYCODE_NAMES.split(' ').collect()
}
fn pinned_oscode_names() -> Vec<&'static str> {
    refs::OSCODE_NAMES.split(' ').collect()
}

fn kc_of(code: u16) -> Option<KeyCode> {
    OsCode::from_u16(code).map(KeyCode::from)
}

// ------------------------------------------------------------------ part 1: stepper, all codes

const CODES_PER_CASE: u64 = 8;
const N_CODES: u64 = 767; // 0..=766

#[derive(Debug, PartialEq, Clone)]
enum Exp {
    Nothing,
    Key(String),
    Btn(&'static str),
    Scroll(&'static str),
}

/// expected OS-level effect of pressing and releasing a key that is mapped to itself
fn expected_identity(c: u16) -> Exp {
    match c {
        0 => Exp::Nothing,                 // index 0 of every layer is a no-op by construction
        0x2a4..=0x2ad => Exp::Nothing,     // nop0..nop9: reserved, never sent to the OS
        272 => Exp::Btn("Left"),
        273 => Exp::Btn("Right"),
        274 => Exp::Btn("Mid"),
        275 => Exp::Btn("Backward"),
        276 => Exp::Btn("Forward"),
        745 => Exp::Scroll("Up,120"),
        746 => Exp::Scroll("Down,120"),
        747 => Exp::Scroll("Left,120"),
        748 => Exp::Scroll("Right,120"),
        _ => Exp::Key(pinned_keycode_names().get(c as usize).copied().unwrap_or("?").to_string()),
    }
}

const MODES: [&str; 6] = ["defsrc-self", "transparent", "use-defsrc", "unmapped-processed", "held-layer-transparent", "held-layer-unmapped"];

fn helper_key(c: u16) -> &'static str {
    if c == 30 {
        "b"
    } else {
        "a"
    }
}

fn identity_config(c: u16, mode: usize) -> String {
    let n = format!("zz{c}");
    let h = helper_key(c);
    match mode {
        0 => format!("(deflocalkeys-linux {n} {c})\n(defcfg process-unmapped-keys no)\n(defsrc {n})\n(deflayer l {n})\n"),
        1 => format!("(deflocalkeys-linux {n} {c})\n(defcfg process-unmapped-keys no)\n(defsrc {n})\n(deflayer l _)\n"),
        2 => format!("(deflocalkeys-linux {n} {c})\n(defcfg process-unmapped-keys no)\n(defsrc {n})\n(deflayer l use-defsrc)\n"),
        3 => format!("(defcfg process-unmapped-keys yes)\n(defsrc {h})\n(deflayer l {h})\n"),
        4 => format!("(deflocalkeys-linux {n} {c})\n(defcfg process-unmapped-keys no)\n(defsrc {n} {h})\n(deflayer l0 {n} (layer-while-held l1))\n(deflayer l1 _ _)\n"),
        _ => format!("(defcfg process-unmapped-keys yes)\n(defsrc {h})\n(deflayer l0 (layer-while-held l1))\n(deflayer l1 _)\n"),
    }
}

fn is_mouse_code(c: u16) -> bool {
    (272..=276).contains(&c) || (745..=748).contains(&c)
}

fn run_stepper(out: &mut CaseOut, idx: u64) {
    for c in (idx * CODES_PER_CASE)..((idx + 1) * CODES_PER_CASE).min(N_CODES) {
        let c = c as u16;
        if OsCode::from_u16(c).is_none() {
            out.inc("stepper_codes_unknown_to_the_os_layer");
            continue;
        }
        out.inc("stepper_codes");
        let want = expected_identity(c);
        match &want {
            Exp::Nothing => out.inc("stepper_expected_silent"),
            Exp::Key(_) => out.inc("stepper_expected_identity"),
            Exp::Btn(_) => out.inc("stepper_expected_mouse_button"),
            Exp::Scroll(_) => out.inc("stepper_expected_scroll"),
        }
        for (mi, mode) in MODES.iter().enumerate() {
            let cfg = identity_config(c, mi);
            // press, two OS auto-repeats while held, release; modes 4/5 with a layer-while-held active
            let mut h = vec![];
            let hk = crate::core::sim::osc(helper_key(c));
            if mi >= 4 {
                h.extend([Ev::P(hk), Ev::T(2)]);
            }
            h.extend([Ev::P(c), Ev::T(3), Ev::Rep(c), Ev::T(1), Ev::Rep(c), Ev::T(2), Ev::R(c), Ev::T(3)]);
            if mi >= 4 {
                h.extend([Ev::R(hk), Ev::T(3)]);
            }
            let mut sim = match Sim::new(&cfg) {
                Ok(s) => s,
                Err(e) => {
                    out.violate(
                        format!("C11:stepper:config-rejected:{mode}"),
                        format!("identity configuration for code {c} rejected"),
                        json!({"config": cfg, "history": render_hist(&h), "observed": e, "expected": "accepted"}),
                    );
                    continue;
                }
            };
            sim.run(&h);
            out.inc("stepper_runs");
            out.count("stepper_repeat_inputs", 2);
            let all: Vec<(OutKind, String)> = sim.normalized().into_iter().map(|o| (o.kind, o.name)).collect();
            let n_rep = all.iter().filter(|x| x.0 == OutKind::Repeat).count() as u64;
            out.count("stepper_repeat_outputs", n_rep);
            // the mouse pseudo keys: what a repeat does is outside the statement; counted, not judged
            let got: Vec<(OutKind, String)> = if is_mouse_code(c) {
                out.count("stepper_mouse_code_repeat_outputs_not_judged", n_rep);
                all.iter().filter(|x| x.0 != OutKind::Repeat).cloned().collect()
            } else {
                all.clone()
            };
            let exp: Vec<(OutKind, String)> = match &want {
                Exp::Nothing => vec![],
                Exp::Key(n) => vec![(OutKind::Down, n.clone()), (OutKind::Repeat, n.clone()), (OutKind::Repeat, n.clone()), (OutKind::Up, n.clone())],
                Exp::Btn(b) => vec![(OutKind::BtnDown, b.to_string()), (OutKind::BtnUp, b.to_string())],
                Exp::Scroll(s) => vec![(OutKind::Scroll, s.to_string())],
            };
            if got != exp {
                let no_rep = |v: &Vec<(OutKind, String)>| -> Vec<(OutKind, String)> { v.iter().filter(|x| x.0 != OutKind::Repeat).cloned().collect() };
                let class = if no_rep(&got) == no_rep(&exp) {
                    // press/release are right, the forwarded repeats are not
                    match &want {
                        Exp::Nothing => "reserved-code-reached-os-as-repeat",
                        _ if n_rep == 0 => "repeat-not-forwarded",
                        _ if n_rep != 2 => "repeat-count",
                        _ => "repeat-of-different-code",
                    }
                } else {
                    match (&want, no_rep(&got).is_empty()) {
                        (Exp::Nothing, _) => "reserved-code-reached-os",
                        (_, true) => "nothing-emitted",
                        _ => "different-code",
                    }
                };
                out.violate(
                    format!("C11:stepper:{class}:{mode}"),
                    format!("code {c} mapped to itself ({mode}) produced {:?}, expected {:?}", sim.trace_short(), exp),
                    json!({"config": cfg, "history": render_hist(&h), "observed": sim.trace_short(), "expected": format!("{exp:?}"), "code": c}),
                );
            }
            if !sim.os.all_up() {
                out.violate(
                    format!("C11:stepper:stuck:{mode}"),
                    format!("code {c}: something is still held after the release"),
                    json!({"config": cfg, "history": render_hist(&h), "observed": sim.os.describe(), "expected": "nothing held"}),
                );
            }
        }
        out.tag(format!("code:{c}"));
    }
}

// ------------------------------------------------------------------ part 2: name table

const NAMES_PER_CASE: usize = 8;
/// names that are action keywords when written as an action (mouse pseudo keys)
const ACTION_SHADOWED: &[&str] = &[
    "mlft", "mouseleft", "mrgt", "mouseright", "mmid", "mousemid", "mfwd", "mouseforward", "mbck", "mousebackward", "mwu", "mousewheelup",
    "mwd", "mousewheeldown", "mwl", "mousewheelleft", "mwr", "mousewheelright",
];
const MOD_CODES: [u16; 8] = [29, 42, 56, 125, 97, 54, 100, 126];

fn name_config(n: &str, c: u16) -> (String, [&'static str; 4]) {
    // helper keys that are not the key under test
    let pool = ["q", "w", "e", "r", "t", "y"];
    let hs: Vec<&'static str> = pool.iter().copied().filter(|h| str_to_oscode(h).map(|o| o.as_u16()) != Some(c)).collect();
    let h = [hs[0], hs[1], hs[2], hs[3]];
    let is_mod = MOD_CODES.contains(&c);
    let (ov_in, ov_out) = if is_mod { (format!("({n} {})", h[3]), format!("({n} {})", h[3])) } else { (format!("({n})"), format!("({n})")) };
    let s = format!(
        "(defcfg process-unmapped-keys no)\n(defsrc {n})\n(deflayer l0 {act})\n(deflayermap (l1) {n} {h0})\n(defalias\n fk (fork {h0} {h1} ({n}))\n sw (switch ({n}) {h0} break)\n kh (switch ((key-history {n} 1)) {h0} break)\n in (switch ((input real {n})) {h0} break)\n um (unmod {n})\n)\n(deflayermap (l2) {h0} @fk {h1} @sw {h2} @um {h3} @kh u @in)\n(defoverrides {ov_in} ({h0}) ({h1}) {ov_out})\n",
        act = if ACTION_SHADOWED.contains(&n) { "XX" } else { n },
        h0 = h[0],
        h1 = h[1],
        h2 = h[2],
        h3 = h[3],
    );
    (s, h)
}

fn code_of(name: &str) -> u16 {
    str_to_oscode(name).map(|o| o.as_u16()).unwrap_or(u16::MAX)
}

fn switch_true_codes<T>(sw: &Switch<T>, mode: u8) -> Vec<u16> {
    // for which single code does the one-case switch fire? mode 0: active key, 1: key-history slot 1, 2: real input
    let mut v = vec![];
    for c in 0..767u16 {
        let Some(k) = kc_of(c) else { continue };
        let ak: Vec<KeyCode> = if mode == 0 { vec![k] } else { vec![] };
        let hk: Vec<HistoricalEvent<KeyCode>> = if mode == 1 { vec![HistoricalEvent { event: k, ticks_since_occurrence: 1 }] } else { vec![] };
        let co: Vec<(u8, u16)> = if mode == 2 { vec![(0, c)] } else { vec![] };
        let hi: Vec<HistoricalEvent<(u8, u16)>> = vec![];
        let l: Vec<u16> = vec![0];
        if sw.actions(ak.iter().copied(), co.iter().copied(), hk.iter().copied(), hi.iter().copied(), l.iter().copied(), 0).next().is_some() {
            v.push(c);
        }
    }
    v
}

fn run_names(out: &mut CaseOut, idx: u64) {
    let src = sources();
    let pinned: std::collections::HashMap<&str, u16> = refs::KEY_NAMES.iter().copied().collect();
    let os_names = pinned_oscode_names();
    let lo = idx as usize * NAMES_PER_CASE;
    for (name, variant) in src.names.iter().skip(lo).take(NAMES_PER_CASE) {
        out.inc("names");
        out.tag(format!("name:{name}"));
        // the code this name must denote: pinned table; names added after pinning fall back to the
        // declaration they are written next to
        let declared = os_names.iter().position(|v| v == variant).map(|p| p as u16);
        let want: u16 = match pinned.get(name.as_str()) {
            Some(c) => {
                out.inc("names_with_pinned_code");
                *c
            }
            None => {
                out.inc("names_not_in_pinned_table");
                match declared {
                    Some(c) => c,
                    None => continue,
                }
            }
        };
        let mut bad = |out: &mut CaseOut, pos: &str, observed: String, cfg: &str| {
            out.violate(
                format!("C11:name:{pos}"),
                format!("key name \"{name}\" denotes {observed} in position {pos}, expected code {want}"),
                json!({"config": cfg, "history": "(parse only)", "observed": observed, "expected": want, "name": name}),
            );
        };
        // the function itself
        let direct = code_of(name);
        if direct != want {
            bad(out, "str_to_oscode", format!("{direct}"), "");
        }
        let (cfg_text, h) = name_config(name, want);
        let cfg = match kanata_parser::cfg::new_from_str(&cfg_text, Default::default()) {
            Ok(c) => c,
            Err(e) => {
                out.inc("names_config_rejected");
                bad(out, "config-rejected", format!("{e:?}").lines().take(12).collect::<Vec<_>>().join(" | "), &cfg_text);
                continue;
            }
        };
        let l = cfg.layout.b();
        let hc: Vec<u16> = h.iter().map(|x| code_of(x)).collect();
        // defsrc + deflayermap inputs
        let mapped: BTreeSet<u16> = cfg.mapped_keys.iter().map(|o| o.as_u16()).collect();
        let mut exp_mapped: BTreeSet<u16> = hc.iter().copied().collect();
        exp_mapped.insert(code_of("u"));
        exp_mapped.insert(want);
        if mapped != exp_mapped {
            bad(out, "defsrc", format!("mapped keys {mapped:?}"), &cfg_text);
        } else {
            out.inc("names_ok_defsrc");
        }
        // action on l0 at the coordinate of `want`
        if !ACTION_SHADOWED.contains(&name.as_str()) && want != 0 {
            match (&l.layers[0][0][want as usize], kc_of(want)) {
                (Action::KeyCode(k), Some(w)) if *k == w => out.inc("names_ok_action"),
                (other, _) => bad(out, "action", format!("{other:?}"), &cfg_text),
            }
        } else {
            out.inc("names_action_position_skipped");
        }
        // deflayermap input: l1 at `want` holds the helper key h0
        if want != 0 {
            match (&l.layers[1][0][want as usize], kc_of(hc[0])) {
                (Action::KeyCode(k), Some(w)) if *k == w => out.inc("names_ok_deflayermap_input"),
                (other, _) => bad(out, "deflayermap-input", format!("{other:?} at coordinate {want}"), &cfg_text),
            }
        }
        // fork trigger
        match &l.layers[2][0][hc[0] as usize] {
            Action::Fork(f) if f.right_triggers.len() == 1 && Some(f.right_triggers[0]) == kc_of(want) => out.inc("names_ok_fork"),
            other => bad(out, "fork", format!("{other:?}"), &cfg_text),
        }
        // switch: bare key, key-history, input
        for (coord, mode, pos) in [(hc[1], 0u8, "switch-key"), (hc[3], 1, "switch-key-history"), (code_of("u"), 2, "switch-input")] {
            match &l.layers[2][0][coord as usize] {
                Action::Switch(sw) => {
                    let t = switch_true_codes(sw, mode);
                    out.count("names_switch_evaluations", 749);
                    if t == vec![want] {
                        out.inc(&format!("names_ok_{pos}"));
                    } else {
                        bad(out, pos, format!("true exactly for codes {t:?}"), &cfg_text);
                    }
                }
                other => bad(out, pos, format!("{other:?}"), &cfg_text),
            }
        }
        // unmod
        match &l.layers[2][0][hc[2] as usize] {
            Action::Custom(cs) => {
                let mut ok = false;
                for c in cs.iter() {
                    if let CustomAction::Unmodded { keys, .. } = c {
                        ok = keys.len() == 1 && Some(keys[0]) == kc_of(want);
                    }
                }
                if ok {
                    out.inc("names_ok_unmod");
                } else {
                    bad(out, "unmod", format!("{cs:?}"), &cfg_text);
                }
            }
            other => bad(out, "unmod", format!("{other:?}"), &cfg_text),
        }
        // defoverrides: input side and output side
        let is_mod = MOD_CODES.contains(&want);
        let mut st = OverrideStates::new();
        let as_codes = |v: &Vec<KeyCode>| -> BTreeSet<u16> { v.iter().map(|k| u16::from(OsCode::from(*k))).collect() };
        if let (Some(w), Some(k0), Some(k1), Some(k3)) = (kc_of(want), kc_of(hc[0]), kc_of(hc[1]), kc_of(hc[3])) {
            let mut v = if is_mod { vec![w, k3] } else { vec![w] };
            cfg.overrides.override_keys(&mut v, &mut st);
            if as_codes(&v) == [hc[0]].into_iter().collect() {
                out.inc("names_ok_override_input");
            } else {
                bad(out, "defoverrides-input", format!("{:?} -> {:?}", if is_mod { vec![want, hc[3]] } else { vec![want] }, as_codes(&v)), &cfg_text);
            }
            let mut v = vec![k1];
            cfg.overrides.override_keys(&mut v, &mut st);
            let exp: BTreeSet<u16> = if is_mod { [want, hc[3]].into_iter().collect() } else { [want].into_iter().collect() };
            if as_codes(&v) == exp {
                out.inc("names_ok_override_output");
            } else {
                bad(out, "defoverrides-output", format!("{:?} -> {:?}", vec![hc[1]], as_codes(&v)), &cfg_text);
            }
            let _ = k0;
        }
        // aliases written in one match arm agree with the declaration they are written next to
        if let Some(d) = declared {
            if d != want {
                bad(out, "source-arm", format!("written next to OsCode::{variant} = {d}"), "");
            }
        }
    }
}

// ------------------------------------------------------------------ part 3: code spaces coincide

fn run_enums(out: &mut CaseOut) {
    let src = sources();
    let kcn = pinned_keycode_names();
    let ocn = pinned_oscode_names();
    let mut bad = |out: &mut CaseOut, sig: &str, what: String, observed: Value, expected: Value| {
        out.violate(format!("C11:codespace:{sig}"), what, json!({"config": "(none)", "history": "(none)", "observed": observed, "expected": expected, "sources": src.root}));
    };
    // natively, every code
    let mut known = 0u64;
    for c in 0..=767u16 {
        let Some(osc) = OsCode::from_u16(c) else { continue };
        known += 1;
        out.inc("codes_checked_natively");
        if osc.as_u16() != c || u16::from(osc) != c {
            bad(out, "from_u16-as_u16", format!("from_u16({c}).as_u16() = {}", osc.as_u16()), json!(osc.as_u16()), json!(c));
        }
        let kc = KeyCode::from(osc);
        if kc as u16 != u16::from(osc) {
            bad(out, "value-differs", format!("OsCode {osc:?} = {} but KeyCode {kc:?} = {}", u16::from(osc), kc as u16), json!(kc as u16), json!(c));
        }
        let back = OsCode::from(kc);
        if back != osc || KeyCode::from(&osc) != kc {
            bad(out, "roundtrip", format!("{osc:?} -> {kc:?} -> {back:?}"), json!(format!("{back:?}")), json!(format!("{osc:?}")));
        }
        // the conversion must land on the variant that carries this value in both declarations
        let kn = format!("{kc:?}");
        if kcn.get(c as usize).copied() != Some(kn.as_str()) {
            bad(out, "keycode-variant-at-value", format!("value {c} is KeyCode::{kn}, pinned KeyCode::{}", kcn.get(c as usize).copied().unwrap_or("?")), json!(kn), json!(kcn.get(c as usize)));
        }
        let on = format!("{osc:?}");
        if ocn.get(c as usize).copied() != Some(on.as_str()) {
            bad(out, "oscode-variant-at-value", format!("value {c} is OsCode::{on}, pinned OsCode::{}", ocn.get(c as usize).copied().unwrap_or("?")), json!(on), json!(ocn.get(c as usize)));
        }
    }
    out.max("codes_known_to_from_u16", known);
    // a few anchors written with variant names in kanata's own logic
    let anchors: [(KeyCode, OsCode, u16); 10] = [
        (KeyCode::LShift, OsCode::KEY_LEFTSHIFT, 42),
        (KeyCode::RShift, OsCode::KEY_RIGHTSHIFT, 54),
        (KeyCode::LCtrl, OsCode::KEY_LEFTCTRL, 29),
        (KeyCode::RCtrl, OsCode::KEY_RIGHTCTRL, 97),
        (KeyCode::LAlt, OsCode::KEY_LEFTALT, 56),
        (KeyCode::RAlt, OsCode::KEY_RIGHTALT, 100),
        (KeyCode::LGui, OsCode::KEY_LEFTMETA, 125),
        (KeyCode::RGui, OsCode::KEY_RIGHTMETA, 126),
        (KeyCode::A, OsCode::KEY_A, 30),
        (KeyCode::BSpace, OsCode::KEY_BACKSPACE, 14),
    ];
    for (k, o, v) in anchors {
        out.inc("anchor_variants_checked");
        if k as u16 != v || o.as_u16() != v || OsCode::from(k) != o {
            bad(out, "anchor", format!("{k:?}={} {o:?}={} expected {v}", k as u16, o.as_u16()), json!([k as u16, o.as_u16()]), json!(v));
        }
    }
    // the declarations in the current sources
    for (which, decl, pinned) in [("KeyCode", &src.keycode_enum, &kcn), ("OsCode", &src.oscode_enum, &ocn)] {
        out.count(&format!("declared_variants_{which}"), decl.len() as u64);
        if decl.is_empty() {
            out.inconclusive = Some(format!("could not read the {which} declaration from {}", src.root));
            continue;
        }
        let mut seen: BTreeSet<u32> = BTreeSet::new();
        for (n, v) in decl.iter() {
            if !seen.insert(*v) {
                bad(out, "duplicate-discriminant", format!("{which}::{n} repeats discriminant {v}"), json!(n), json!(v));
            }
            match pinned.get(*v as usize) {
                Some(p) if p == n => {}
                Some(p) => bad(out, "declaration-renumbered", format!("{which}::{n} = {v} in the sources; pinned {which}::{p} = {v}"), json!(n), json!(p)),
                None => bad(out, "declaration-out-of-range", format!("{which}::{n} = {v}"), json!(v), json!("0..=767")),
            }
        }
        if decl.len() != pinned.len() {
            bad(out, "declaration-count", format!("{which} declares {} variants, pinned {}", decl.len(), pinned.len()), json!(decl.len()), json!(pinned.len()));
        }
    }
    let a: BTreeSet<u32> = src.keycode_enum.iter().map(|x| x.1).collect();
    let b: BTreeSet<u32> = src.oscode_enum.iter().map(|x| x.1).collect();
    if a != b && !a.is_empty() && !b.is_empty() {
        let only_k: Vec<&u32> = a.difference(&b).collect();
        let only_o: Vec<&u32> = b.difference(&a).collect();
        bad(out, "discriminant-sets-differ", "the discriminant sets of KeyCode and OsCode differ: a transmute between them is undefined behaviour for these values".into(), json!({"only_KeyCode": only_k, "only_OsCode": only_o}), json!("equal sets"));
    }
    out.tag("enums");
    out.sample = Some(json!({"part": "code spaces", "sources": src.root, "keycode_variants": src.keycode_enum.len(), "oscode_variants": src.oscode_enum.len(), "names_extracted": src.names.len()}));
}

// ------------------------------------------------------------------ part 4: mapped set

struct MapCase {
    cfg: String,
    expected: BTreeSet<u16>,
    class: String,
    /// deflocalkeys-linux entries whose name is a built-in key name
    builtin_named: u64,
    /// how many times such a name is written in defsrc / all-except / deflayermap inputs
    redefined_used: u64,
}

fn make_mapped(ctx: &Ctx, r: u64) -> MapCase {
    let mut rng = Rng::for_case(ctx.seed, "C11", "mapped", r);
    // key pool: pinned names (one per code) and a few local keys
    let mut by_code: std::collections::BTreeMap<u16, Vec<&str>> = Default::default();
    for (n, c) in refs::KEY_NAMES {
        if *c != 0 {
            by_code.entry(*c).or_default().push(n);
        }
    }
    let codes: Vec<u16> = by_code.keys().copied().collect();
    // local keys: brand-new names, and built-in names bound to another code (`z 21`): from then on
    // the name denotes the configured number wherever it is written
    let mut local: Vec<(String, u16)> = vec![];
    let mut n_builtin_named = 0;
    for _ in 0..rng.usize(4) {
        let c = loop {
            let c = rng.range(1, 748) as u16;
            let named_ok = rng.chance(1, 3);
            if OsCode::from_u16(c).is_some() && (named_ok || !by_code.contains_key(&c)) && c != 240 {
                break c;
            }
        };
        if local.iter().any(|x| x.1 == c) {
            continue;
        }
        if rng.coin() {
            let (n, b) = *rng.pick(refs::KEY_NAMES);
            if b != c && !local.iter().any(|x| x.0 == n) {
                local.push((n.to_string(), c));
                n_builtin_named += 1;
            }
        } else {
            local.push((format!("zz{c}"), c));
        }
    }
    let denote = |name: &str, builtin: u16| -> u16 { local.iter().find(|x| x.0 == name).map(|x| x.1).unwrap_or(builtin) };
    let pick_key = |rng: &mut Rng| -> (String, u16) {
        if !local.is_empty() && rng.chance(1, 4) {
            rng.pick(&local).clone()
        } else {
            let c = *rng.pick(&codes);
            let n = rng.pick(&by_code[&c]).to_string();
            let c = denote(&n, c);
            (n, c)
        }
    };
    let mut s = String::new();
    if !local.is_empty() {
        s.push_str("(deflocalkeys-linux");
        for (n, c) in &local {
            s.push_str(&format!(" {n} {c}"));
        }
        s.push_str(")\n");
    }
    let mut expected: BTreeSet<u16> = BTreeSet::new();
    // defsrc
    let mut src: Vec<(String, u16)> = vec![];
    let nsrc = *rng.pick_weighted(&[(1u32, 0usize), (3, 1), (3, 3), (3, 8), (1, 30)]);
    while src.len() < nsrc {
        let k = pick_key(&mut rng);
        if !src.iter().any(|x| x.1 == k.1) {
            src.push(k);
        }
    }
    // process-unmapped-keys
    let pu = rng.usize(4); // 0 no, 1 yes, 2/3 all-except
    let mut exc: Vec<(String, u16)> = vec![];
    if pu >= 2 {
        let n = *rng.pick(&[1usize, 2, 5, 12]);
        let mut guard = 0;
        while exc.len() < n && guard < 200 {
            guard += 1;
            let k = pick_key(&mut rng);
            if !src.iter().any(|x| x.1 == k.1) && !exc.iter().any(|x| x.1 == k.1) {
                exc.push(k);
            }
        }
    }
    s.push_str("(defcfg process-unmapped-keys ");
    match pu {
        0 => s.push_str("no"),
        1 => s.push_str("yes"),
        _ => {
            s.push_str("(all-except");
            for (n, _) in &exc {
                s.push(' ');
                s.push_str(n);
            }
            s.push(')');
        }
    }
    if rng.chance(1, 4) {
        s.push_str(" block-unmapped-keys yes");
    }
    s.push_str(")\n(defsrc");
    for (n, c) in &src {
        s.push(' ');
        s.push_str(n);
        expected.insert(*c);
    }
    s.push_str(")\n");
    // layers
    let nl = rng.range(1, 3);
    let mut n_inputs = 0;
    let mut inputs_written: Vec<(String, u16)> = vec![];
    for li in 0..nl {
        if rng.coin() {
            s.push_str(&format!("(deflayer l{li}"));
            for _ in &src {
                s.push_str(*rng.pick(&[" _", " XX", " a", " lsft", " (tap-hold 200 200 a b)"]));
            }
            s.push_str(")\n");
        } else {
            s.push_str(&format!("(deflayermap (l{li})"));
            let n = *rng.pick(&[0usize, 1, 2, 6]);
            let mut ins: Vec<u16> = vec![];
            for _ in 0..n {
                // inputs may repeat defsrc keys and may be excepted keys
                let k = if !exc.is_empty() && rng.chance(1, 6) { rng.pick(&exc).clone() } else if !src.is_empty() && rng.chance(1, 4) { rng.pick(&src).clone() } else { pick_key(&mut rng) };
                if ins.contains(&k.1) {
                    continue;
                }
                ins.push(k.1);
                s.push_str(&format!(" {} {}", k.0, *rng.pick(&["a", "XX", "(layer-while-held l0)", "lctl"])));
                expected.insert(k.1);
                inputs_written.push(k.clone());
                n_inputs += 1;
            }
            match rng.usize(6) {
                0 => s.push_str(" _ b"),
                1 if pu != 0 => s.push_str(" __ c"),
                2 if pu != 0 => s.push_str(" ___ d"),
                _ => {}
            }
            s.push_str(")\n");
        }
    }
    if pu != 0 {
        for c in 1..767u16 {
            if OsCode::from_u16(c).is_some() && !exc.iter().any(|x| x.1 == c) {
                expected.insert(c);
            }
        }
    }
    // how often a redefined built-in name is actually written in this configuration
    let mut redefined_used = 0u64;
    for (n, _) in src.iter().chain(exc.iter()).chain(inputs_written.iter()) {
        if local.iter().any(|x| &x.0 == n && !x.0.starts_with("zz")) {
            redefined_used += 1;
        }
    }
    MapCase { cfg: s, expected, class: format!("map:pu{}:src{}:in{}:exc{}:loc{}:bn{}", pu.min(2), nsrc, n_inputs, exc.len(), local.len(), n_builtin_named), builtin_named: n_builtin_named, redefined_used }
}

/// codes whose membership in the "all known keys" part the statement does not decide
const UNDECIDED: [u16; 2] = [0, 240];

fn run_mapped(out: &mut CaseOut, ctx: &Ctx, r: u64) {
    let mc = make_mapped(ctx, r);
    let cfg = match kanata_parser::cfg::new_from_str(&mc.cfg, Default::default()) {
        Ok(c) => c,
        Err(e) => {
            out.inc("mapped_configs_rejected");
            if ctx.verbose {
                eprintln!("rejected:\n{}\n{e:?}", mc.cfg);
            }
            return;
        }
    };
    out.inc("mapped_configs");
    out.tag(mc.class.clone());
    out.count("mapped_local_keys_named_like_builtin_keys", mc.builtin_named);
    out.count("mapped_redefined_builtin_names_written", mc.redefined_used);
    // index 0 of every layer is a no-op whatever the layer's entries and any-key entries are
    for (li, layer) in cfg.layout.b().layers.iter().enumerate() {
        out.inc("mapped_layer_cells0_inspected");
        if layer[0][0] != Action::NoOp {
            out.violate(
                "C11:mapped:cell0-not-noop",
                format!("cell (0,0) of layer #{li} is {:?}, expected NoOp", layer[0][0]),
                json!({"config": mc.cfg, "history": "(parse only)", "observed": format!("{:?}", layer[0][0]), "expected": "NoOp", "layer_index": li}),
            );
            break;
        }
    }
    let mut got: BTreeSet<u16> = cfg.mapped_keys.iter().map(|o| o.as_u16()).collect();
    let mut exp = mc.expected.clone();
    for u in UNDECIDED {
        if got.contains(&u) && !exp.contains(&u) {
            out.inc(&format!("mapped_contains_undecided_code_{u}"));
        }
        got.remove(&u);
        exp.remove(&u);
    }
    out.max("mapped_set_size", got.len() as u64);
    if got.len() < 700 {
        out.inc("mapped_small_sets");
    } else {
        out.inc("mapped_process_unmapped_sets");
    }
    if got != exp {
        let extra: Vec<&u16> = got.difference(&exp).collect();
        let missing: Vec<&u16> = exp.difference(&got).collect();
        let sig = if !missing.is_empty() && extra.is_empty() { "C11:mapped:key-missing" } else if missing.is_empty() { "C11:mapped:key-extra" } else { "C11:mapped:differs" };
        out.violate(
            sig,
            format!("Cfg.mapped_keys differs from defsrc + deflayermap inputs (+ all known keys - exceptions): extra {extra:?}, missing {missing:?}"),
            json!({"config": mc.cfg, "history": "(parse only)", "observed": {"extra": extra, "missing": missing, "size": got.len()}, "expected": {"size": exp.len()}}),
        );
    }
    if r % 300 == 2 {
        out.sample = Some(json!({"part": "mapped set", "config": mc.cfg, "mapped_keys": got.len()}));
    }
    local::reset_names();
}

// ------------------------------------------------------------------ the check

fn n_stepper() -> u64 {
    (N_CODES + CODES_PER_CASE - 1) / CODES_PER_CASE
}
fn n_names() -> u64 {
    ((sources().names.len() + NAMES_PER_CASE - 1) / NAMES_PER_CASE) as u64
}
fn n_mapped(ctx: &Ctx) -> u64 {
    ctx.tier.sel(10_000, 100_000)
}

impl Check for C11Check {
    fn id(&self) -> &'static str {
        "C11"
    }
    fn n_cases(&self, ctx: &Ctx) -> u64 {
        n_stepper() + n_names() + 1 + n_mapped(ctx) + paths::n_nop_cases() + paths::n_ident_cases(ctx) + cell0::n_cases() + local::n_cases(ctx) + seq::n_cases(ctx)
    }
    fn describe(&self, ctx: &Ctx, idx: u64) -> Value {
        let (a, b) = (n_stepper(), n_names());
        if idx < a {
            json!({"part": "stepper", "codes": format!("{}..{}", idx * CODES_PER_CASE, (idx + 1) * CODES_PER_CASE)})
        } else if idx < a + b {
            json!({"part": "names", "names": sources().names.iter().skip((idx - a) as usize * NAMES_PER_CASE).take(NAMES_PER_CASE).map(|x| x.0.clone()).collect::<Vec<_>>()})
        } else if idx == a + b {
            json!({"part": "enums"})
        } else if idx < a + b + 1 + n_mapped(ctx) {
            json!({"part": "mapped", "config": make_mapped(ctx, idx - a - b - 1).cfg})
        } else if idx < a + b + 1 + n_mapped(ctx) + paths::n_nop_cases() {
            paths::describe_nop(idx - a - b - 1 - n_mapped(ctx))
        } else if idx < a + b + 1 + n_mapped(ctx) + paths::n_nop_cases() + paths::n_ident_cases(ctx) {
            paths::describe_ident(ctx, idx - a - b - 1 - n_mapped(ctx) - paths::n_nop_cases())
        } else if idx < a + b + 1 + n_mapped(ctx) + paths::n_nop_cases() + paths::n_ident_cases(ctx) + cell0::n_cases() {
            cell0::describe(idx - a - b - 1 - n_mapped(ctx) - paths::n_nop_cases() - paths::n_ident_cases(ctx))
        } else if idx < a + b + 1 + n_mapped(ctx) + paths::n_nop_cases() + paths::n_ident_cases(ctx) + cell0::n_cases() + local::n_cases(ctx) {
            local::describe(ctx, idx - a - b - 1 - n_mapped(ctx) - paths::n_nop_cases() - paths::n_ident_cases(ctx) - cell0::n_cases())
        } else {
            seq::describe(ctx, idx - a - b - 1 - n_mapped(ctx) - paths::n_nop_cases() - paths::n_ident_cases(ctx) - cell0::n_cases() - local::n_cases(ctx))
        }
    }
    fn run_case(&self, ctx: &Ctx, idx: u64) -> CaseOut {
        let mut out = CaseOut::new();
        let (a, b) = (n_stepper(), n_names());
        if idx < a {
            run_stepper(&mut out, idx);
            if idx == 3 {
                out.sample = Some(json!({"part": "stepper", "config": identity_config(30, 0), "history": "d:A t:3 r:A t:1 r:A t:2 u:A t:3", "expected": "↓A ⟳A ⟳A ↑A", "modes": MODES}));
            }
        } else if idx < a + b {
            run_names(&mut out, idx - a);
            if idx == a {
                out.sample = Some(json!({"part": "names", "config": name_config("lsft", 42).0}));
            }
        } else if idx == a + b {
            run_enums(&mut out);
        } else if idx < a + b + 1 + n_mapped(ctx) {
            run_mapped(&mut out, ctx, idx - a - b - 1);
        } else if idx < a + b + 1 + n_mapped(ctx) + paths::n_nop_cases() {
            paths::run_nop(&mut out, ctx, idx - a - b - 1 - n_mapped(ctx));
        } else if idx < a + b + 1 + n_mapped(ctx) + paths::n_nop_cases() + paths::n_ident_cases(ctx) {
            paths::run_ident(&mut out, ctx, idx - a - b - 1 - n_mapped(ctx) - paths::n_nop_cases());
        } else if idx < a + b + 1 + n_mapped(ctx) + paths::n_nop_cases() + paths::n_ident_cases(ctx) + cell0::n_cases() {
            cell0::run_case(&mut out, ctx, idx - a - b - 1 - n_mapped(ctx) - paths::n_nop_cases() - paths::n_ident_cases(ctx));
        } else if idx < a + b + 1 + n_mapped(ctx) + paths::n_nop_cases() + paths::n_ident_cases(ctx) + cell0::n_cases() + local::n_cases(ctx) {
            local::run_case(&mut out, ctx, idx - a - b - 1 - n_mapped(ctx) - paths::n_nop_cases() - paths::n_ident_cases(ctx) - cell0::n_cases());
        } else {
            seq::run_case(&mut out, ctx, idx - a - b - 1 - n_mapped(ctx) - paths::n_nop_cases() - paths::n_ident_cases(ctx) - cell0::n_cases() - local::n_cases(ctx));
        }
        out
    }
    fn rule(&self) -> String {
        "Exhaustive and seed-independent: (1) every code 0..=766 that OsCode::from_u16 knows is pressed, auto-repeated twice by the OS while held (KeyValue::Repeat), and released in a real Kanata in six configurations (named via deflocalkeys-linux and mapped to itself in defsrc/deflayer; `_`; `use-defsrc`; not in defsrc with process-unmapped-keys yes; the transparent and the unmapped variant again with a layer-while-held active whose layer is transparent) and the OS stream must be press c / repeat c / repeat c / release c with the pinned KeyCode name of value c (nothing at all, also no repeat, for 0 and 0x2a4..=0x2ad; mouse-button events for 272..=276 and one scroll event for 745..=748, where repeat outputs are counted but not judged); (2) every string literal of str_to_oscode and of its default-mapping table, extracted at run time from the current parser/src/keys/mod.rs, must denote its pinned code through str_to_oscode, in defsrc, as a layer action, as a deflayermap input, as fork trigger, as switch key / key-history / input item (each one-case switch evaluated for all 749 codes), in unmod, and on both sides of defoverrides; (3) for every code: from_u16/as_u16 round trip, u16::from(osc) == KeyCode::from(osc) as u16, reverse conversion, Debug names of both sides equal to pinned tables (OsCode names cross-checked with the kernel's input-event-codes.h), plus the enum declarations parsed from the current sources: same discriminant sets, no duplicate, every (variant, value) as pinned. Random: (4) configurations with random defsrc subsets, deflayermap inputs (also overlapping defsrc / excepted keys, with _ / __ / ___), process-unmapped-keys no | yes | (all-except ...), optional deflocalkeys-linux with brand-new names and with built-in names bound to other codes (a name then stands for its configured number in defsrc, in the exception list and as deflayermap input); Cfg.mapped_keys must equal the set computed from that description. (5) Systematic, seed-independent scenarios plus seeded random histories: 134 small configurations in 41 families type a key K on every path that writes keys to the OS - sequences in the three input modes (mode from defcfg and from the (sequence t mode) leader; K first / second / third in the sequence; completed, cancelled by a foreign key, cancelled by the timeout, cancelled by K itself, K held and auto-repeated over the cancel, S-K, leader and K typed by one macro, virtual key whose macro types K), macro / macro-release-cancel / macro-cancel-on-press / macro-repeat, dynamic macro record + replay, zippychord with K pressed among the chord keys and with K as output-character-mapping (plain, S-, no-erase, single-output), unmod / unshift, defoverrides outputs (also with a modifier), one-shot / one-shot-release, defchords and defchordsv2, four tap-hold kinds, tap-dance / tap-dance-eager, fork / switch / multi, S- C-A- RA- prefixes, rpt / rpt-any, virtual keys through on-press / on-release / hold-for-duration and the direct fake-key operations, caps-word / caps-word-custom, held and switched layers; OS auto-repeats are part of the histories. Every scenario runs with K = nop0..nop9 (designed history + 6 / 200 random histories per key) and once with K = f24 (control). Judged: the raw OS stream (also redundant releases) of a nop run contains no press, repeat, release or raw-code event of 0x2a4..=0x2ad. The control run is only counted (did f24 reach the OS through this family?). (6) Exhaustive over the enumerated space: for 4 (quick) / 12 (thorough) codes x delegate-to-first-layer {no,yes} x transparent-key-resolution {absent,to-base-layer,layer-stack} x block-unmapped-keys {no,yes} x process-unmapped-keys {no,yes,(all-except f24)} x key in defsrc or not x first layer {deflayer: x, XX, _, the key, use-defsrc, (multi lctl x), (tap-hold ..); deflayermap: x, use-defsrc, key absent} x upper layer maps the key by {deflayer use-defsrc, deflayermap explicit use-defsrc, `_`, `__`, `___` wildcard use-defsrc, explicit transparent in deflayer / deflayermap above an identity} x activation {layer-while-held, layer-switch, transparent held layer over the switched layer, the first layer itself} (combinations the language rejects or in which the key is not intercepted are skipped; ~20 800 configurations in quick; two cases per (code, option combination) so that first layers that use use-defsrc themselves - which recurse without bound if the defsrc row is not the identity - cannot hide the others): press, two OS repeats, release must come out as press c / repeat c / repeat c / release c, nothing may stay held, and Layout.src_keys must be KeyCode(c) in column c (no-op in column 0 and for codes unknown to the OS layer). (7) Exhaustive over the enumerated space, plus seeded random histories: route by which cell (0,0) of a layer could be written {deflayermap `__ ACT`; `___ ACT`; `___ ACT` with a deflocalkeys-linux name bound to number 0 in defsrc; `_ ACT` with that name in defsrc; explicit deflayermap input `zz0 ACT` (name in defsrc or not); deflayer entry at the defsrc position of zz0} x ACT {f24, S-f24, (layer-switch mk), (layer-while-held mk), macro, (multi lalt f24), tap-hold, one-shot, alias, on-press tap-vkey, mlft, arbitrary-code, unicode: everything ACT can produce is a marker nothing else in the configuration produces} x the layer carrying the entry {first layer, held layer, switched-to layer, first and held layer} x process-unmapped-keys {no, yes, (all-except f22)} x block-unmapped-keys x delegate-to-first-layer x transparent-key-resolution {absent, to-base-layer, layer-stack} (combinations the language rejects skipped; 11 232 configurations). Every configuration has two defchordsv2 chords (all-released, first-release with a macro), a tap-hold-press, a one-shot, a macro and a sldr/defseq sequence on keys a..g that have entries of their own on every layer. Judged (a) on the parsed Cfg: cell [layer][0][0] of every layer and column 0 of the defsrc row are exactly NoOp (also in every accepted configuration of parts 4 and 6); (b) on a real Kanata, for 4 designed histories (chord activation with a key tapped while the chord is held and released; chord activation under a pending tap-hold, after a one-shot, first-release chord; macro + one-shot + sequence without any chord; press / OS repeat / release of code 0 itself where Cfg.mapped_keys contains it) and 2 (quick) / 30 (thorough) seeded random histories over the same keys (chord pairs, code 0, repeats), each wrapped in the activation of the layer and ending with a probe tap that shows the layer: no marker (F23/F24/LAlt key event, mouse button, raw code, unicode, scroll) reaches the OS, the OS stream including its timing equals that of the same configuration without the entry, the current and default layer at the end are the same, nothing stays held. (8) Systematic and seed-independent, plus seeded blocks: the denotation of a key name is the number given for it in deflocalkeys-linux if it is listed there, else its pinned built-in code - also when the listed name is one of the built-in names. (a) For every pinned key name N (526) x 2 target codes c != built-in(N) (one code that has built-in names of its own, one that has none; not 0, 240 or the code of KeyCode::ErrorRollOver) one configuration with (deflocalkeys-linux N c) is parsed and N must denote c through str_to_oscode, in defsrc (Cfg.mapped_keys is exactly {c} + the helper inputs), as layer action at coordinate c, as deflayermap input, fork trigger, switch key / key-history / input item (each evaluated for all 749 codes), in unmod, behind S-, inside multi / tap-hold / one-shot / release-key / macro, through a defvar, on both sides of defoverrides, and in process-unmapped-keys (all-except N) (all known keys minus c, so built-in(N) stays intercepted); in the same configuration a deflayermap layer written with another built-in name of built-in(N), a built-in name of c, an unrelated built-in name and the other entries of the block must have its entries exactly at those names' own codes. Sites the language reads differently are skipped and counted: action positions for the mouse action keywords, macro for the digit names (a delay), S- for names that themselves start with a modifier prefix symbol. (b) For every pinned key name x 1 (quick) / 3 (thorough) plain target codes (ordinary key, no modifier) 15 single-site configurations run on a real Kanata with the physical code c: defsrc identity (press, OS repeat, release), deflayermap input, (macro N), S-N, tap-hold-release-keys and tap-hold-except-keys key list (early tap by c while the tap-hold waits), defchordsv2 participant, defseq key, caps-word-custom shifted list, fork trigger, switch key, switch (input real N), defoverrides input, unmod, one-shot. Judged: the site reacts to c as the guide describes for the feature (marker key / the key itself appears), and the OS stream including timing equals the stream of the same configuration with N replaced by a brand-new name bound to c. (c) Seeded: 450 (quick) / 7 500 (thorough) deflocalkeys-linux blocks with 1-4 redefined built-in names - swap of two names (z<->y), rotation of three, independent entries (optionally with a brand-new name among them), two names for one code - every entry judged as in (a) with the other entries as bystanders, and all entries together in one defsrc mapped to themselves on a real Kanata (press c_i -> key c_i). Part 4's generator binds built-in names to other codes in about half of its deflocalkeys entries. (9) Seeded sequences of configurations read by one process: 2-4 configurations, in half of the sequences followed by the first one again; each has no deflocalkeys at all | a deflocalkeys-linux block | only a block of another platform variant (win / winiov2 / wintercept / macos) | both | an empty linux block; a sequence has 1-4 theme names (built-in punctuation names ; ' [ ] - = ` \\ , . / + < yen ro ..., arbitrary pinned names, brand-new names ü ö ä ß é ñ ì ...) which the linux blocks bind to ordinary key codes, different ones in different configurations; every configuration writes theme names, names bound by earlier blocks and unrelated names in defsrc, as layer action at the defsrc position, as deflayermap input and action, in process-unmapped-keys (all-except ...), as fork trigger and in unmod; one configuration in six (not on the live-reload entry) may write a name that only another configuration of the sequence defines. The harness puts the parser's process-global name table back to its defaults once before the first configuration and never inside the sequence. Entry points: cfg::new_from_str (1 600 / 16 000 sequences), cfg::new_from_file on files in a scratch directory (600 / 6 000), and a real Kanata built with Kanata::new from the files of the sequence whose every configuration maps F21 to lrld-next: F21 is tapped and the real handle_time_ticks (do_live_reload -> cfg::new_from_file) is run until the reload is done (400 / 4 000 sequences). Judged for every configuration of the sequence, with denotation(name) = number in its own deflocalkeys-linux block, else pinned built-in code, else unknown: (a) absolute - it is refused if it writes an unknown name (accepted configurations: every written name known), Cfg.mapped_keys = defsrc + deflayermap inputs (+ all known keys - exceptions; codes 0 and 240 not judged), the first layer's cell at the code of each defsrc key is KeyCode(code of the action name), str_to_oscode right after the parse gives the configuration's denotation for every name of the sequence; (b) relation - accepted/refused, mapped keys, the Debug text of every cell of every layer, the overrides and those look-ups equal the ones of the same configuration read through the same entry point alone in a fresh table; (c) on the real Kanata after start-up and after every lrld-next: the running layout's cells equal those of the configuration started alone, every defsrc key pressed and released by its physical code gives press/release of the key its action name denotes (and the same stream as started alone), the name look-ups are those of the configuration, nothing stays held. Non-trivial = accepted configuration / code / name / scenario; distinct = code, name, mapped-set class, scenario family + variant, (code, option combination), (route, placement, option combination), redefined name, (block kind, size), (entry point, deflocalkeys shapes of the sequence).".into()
    }
    fn assumptions(&self) -> Vec<String> {
        vec![
            "the pinned tables (c11_ref.rs) are the meaning of 'the same code': KeyCode/OsCode variant name at each value and key name -> code as of the tree the check was written against, OsCode values cross-checked with /usr/include/linux/input-event-codes.h (546 names, 0 differences); a key name added later is checked against the declaration it is written next to and for consistency across positions only".into(),
            "the mouse pseudo key names (mlft, mwu, …) are action keywords when written as an action, so the action position is skipped for them; code 0 cannot be a layer coordinate (index 0 of every layer is forced to no-op)".into(),
            "whether codes 0 (KEY_RESERVED) and 240 (KEY_UNKNOWN = KeyCode::No) belong to 'all known keys' under process-unmapped-keys is not decided by the statement; their membership in mapped_keys is counted, not judged".into(),
            "codes 749..=766 are unknown to OsCode::from_u16 and cannot be delivered by the OS layer; they are counted and skipped".into(),
            "the Miri lane for the transmute is a separate crate (/verif/harness-miri) and not part of this in-process check".into(),
            "part 5 judges only the absence of OS events for the reserved codes; what else a scenario types (backspaces, the other keys) belongs to the properties of the respective feature. `(arbitrary-code n)` writes the number the user asked for and is not part of the scenarios; cmd-output-keys (feature `cmd`) and live reload are not reachable in this build / stepper. The control key (f24) is only counted: in the hidden-suppressed cancellation families and in one-shot it legitimately never reaches the OS".into(),
            "part 5: a zippychord output character mapped to a nop key (output-character-mappings) may be refused by the parser (it was typed with the unfiltered writer before the repair recorded in known_findings.json); the f24 control of that family must be accepted and reach the OS".into(),
            "part 7: the expected OS stream is the one the same tree produces for the same configuration without the entry (a relation, not a model): the histories press only keys that have entries of their own on every layer (and code 0), so the any-key entry stands for no key that was pressed and removing it must not change anything; what those keys, chords, macros, sequences themselves emit is the subject of the properties of those features. The absolute clause (no marker output, no change of layer) does not depend on that reference. 'No-op' in the inspection means the cell is exactly Action::NoOp (a transparent or use-defsrc cell would be resolved through other layers). Events of code 0 itself are only sent where Cfg.mapped_keys contains code 0 (counted: cell0_code0_not_intercepted_history_skipped otherwise). The fake (0,0) presses that macros / sequences report to the one-shot tracker do not go through the layers in the current implementation; the scenarios are run and judged all the same".into(),
            "part 8: docs/config.adoc calls a deflocalkeys name 'a key name of your choice that can be used in the rest of the configuration' and does not reserve the built-in names; a chosen name that coincides with a built-in one is therefore read as denoting the configured number everywhere (the unchanged tree looks the configured names up first). What is NOT judged: how a key name that the language also reads as something else behaves at the ambiguous site (mouse action keywords as actions, digits inside macro, names beginning with a modifier-prefix symbol behind S-) - those sites are skipped and counted; deflocalkeys variants of other platforms; names inside files read by other features (zippychord dictionary) and the Linux unicode typing helper (they are not 'the rest of the configuration'). Target codes exclude 0, 240 and the code of KeyCode::ErrorRollOver (251: it doubles as the O- marker of sequences, so `S-dnd` / `S-<any name for 251>` is refused whatever the name is - observed on the unchanged tree, unrelated to deflocalkeys). The real-Kanata runs compare with the same configuration under a brand-new name (a relation) and additionally require the documented reaction of the feature to the bound code; what else the feature emits belongs to that feature's property. The parser keeps the configured names in a process-global table; the harness restores the defaults after every case of parts 4 and 8 so that histories written with key names are not affected".into(),
            "part 9: 'read alone in a fresh table' is the same tree reading the same text through the same entry point after the harness restored the default name table (replace_custom_str_oscode_mapping with an empty map, the state of a new process after its first parse); the harness never touches the table between the configurations of a sequence. The name look-ups after a parse are judged only for accepted configurations (where a refused parse leaves the table is not decided by the statement). A refused reload in the middle of a live-reload sequence is not generated (all names known there); configurations the language refuses for reasons of its own are refused alone too and only counted. The set of intercepted keys of the RUNNING process (the private static MAPPED_KEYS) cannot be read from outside; Cfg.mapped_keys of the parse and the running layout are judged instead. NOT covered, because not reachable from a harness that cannot edit /repo: the Linux event loop's decision whether a REL_WHEEL / REL_HWHEEL event of a mapped wheel code is intercepted (src/kanata/linux.rs handle_scroll is a private free function, its only caller Kanata::event_loop opens real evdev devices and never returns, MAPPED_KEYS is private; there is no /dev/input or /dev/uinput here) - the stepper injects wheel events directly into handle_input_event, so 'a mapped wheel direction is routed through the state machine also when the report carries a hi-res twin' is not observed by this check".into(),
            "part 6: with transparent-key-resolution to-base-layer AND delegate-to-first-layer yes the guide does not decide whether a transparent key of a held layer resolves to the switched layer below it or to the first layer, so the held-transparent-over-switched activation is skipped for that option pair; a transparent upper key is judged only above a first layer that is itself the identity at that position (what lies below a transparent key otherwise is C04's subject); key codes: letters, a modifier, a function key and codes that have no name (via deflocalkeys-linux), not the mouse pseudo keys or nop keys (their identity is part 1)".into(),
        ]
    }
    fn floors(&self, _ctx: &Ctx) -> Vec<(&'static str, u64)> {
        let mut v: Vec<(&'static str, u64)> = vec![
            ("stepper_codes", 749),
            ("stepper_runs", 4_494),
            ("stepper_repeat_inputs", 8_988),
            ("stepper_repeat_outputs", 8_700),
            ("stepper_expected_identity", 729),
            ("names", 500),
            ("names_with_pinned_code", 500),
            ("names_ok_defsrc", 500),
            ("names_ok_action", 480),
            ("names_ok_deflayermap_input", 500),
            ("names_ok_fork", 500),
            ("names_ok_switch-key", 500),
            ("names_ok_switch-key-history", 500),
            ("names_ok_switch-input", 500),
            ("names_ok_unmod", 500),
            ("names_ok_override_input", 500),
            ("names_ok_override_output", 500),
            ("codes_checked_natively", 750),
            ("declared_variants_KeyCode", 768),
            ("declared_variants_OsCode", 768),
            ("mapped_configs", 5_000),
            ("mapped_small_sets", 300),
            ("mapped_process_unmapped_sets", 500),
            ("mapped_layer_cells0_inspected", 5_000),
            ("mapped_local_keys_named_like_builtin_keys", 3_000),
            ("mapped_redefined_builtin_names_written", 2_000),
        ];
        let q = _ctx.tier == crate::core::Tier::Quick;
        v.extend([
            ("noppath_scenarios", 134),
            ("noppath_runs", if q { 8_800 } else { 255_000 }),
            ("noppath_random_history_runs", if q { 7_800 } else { 255_000 }),
            ("noppath_control_runs", 134),
            ("noppath_control_key_reached_os", 95),
            ("noppath_os_events_inspected", 25_000),
            ("ident_configs", if q { 20_000 } else { 60_000 }),
            ("ident_runs", if q { 20_000 } else { 60_000 }),
            ("ident_key_came_out_as_itself", if q { 20_000 } else { 60_000 }),
            ("ident_defsrc_columns_inspected", 15_000_000),
            ("ident_layer_cells0_inspected", if q { 40_000 } else { 120_000 }),
            ("ident_delegate_to_first_layer_yes", 9_000),
            ("ident_delegate_to_first_layer_no", 9_000),
            ("ident_trans_resolution_default", 6_000),
            ("ident_trans_resolution_to_base_layer", 6_000),
            ("ident_trans_resolution_layer_stack", 6_000),
            ("ident_block_unmapped_yes", 9_000),
            ("ident_block_unmapped_no", 9_000),
            ("ident_process_unmapped_no", 3_000),
            ("ident_process_unmapped_yes", 6_000),
            ("ident_process_unmapped_all_except", 6_000),
            ("ident_key_not_in_defsrc", 3_000),
            ("ident_upper_deflayer-entry", 3_000),
            ("ident_upper_deflayermap-explicit", 5_000),
            ("ident_upper_deflayermap-_", 3_500),
            ("ident_upper_deflayermap-__", 700),
            ("ident_upper_deflayermap-___", 3_000),
            ("ident_upper_deflayer-transparent", 1_000),
            ("ident_upper_deflayermap-transparent", 1_200),
            ("ident_activation_held", 7_000),
            ("ident_activation_switched", 7_000),
            ("ident_activation_held-transparent-over-switched", 4_000),
            ("ident_activation_first-layer-itself", 700),
        ]);
        v.extend(paths::nop_family_floors());
        v.extend(cell0::floors(_ctx));
        v.extend(local::floors(_ctx));
        v.extend(seq::floors(_ctx));
        v
    }
    fn exhaustive(&self, _ctx: &Ctx) -> bool {
        true
    }
}
