//! C11 — not implemented yet (stub so that the registry compiles).

use crate::core::{CaseOut, Check, Ctx};

pub struct C11Check;
pub static C11: C11Check = C11Check;

impl Check for C11Check {
    fn id(&self) -> &'static str {
        "C11"
    }
    fn n_cases(&self, _ctx: &Ctx) -> u64 {
        0
    }
    fn run_case(&self, _ctx: &Ctx, _idx: u64) -> CaseOut {
        CaseOut::new()
    }
    fn rule(&self) -> String {
        "not implemented".into()
    }
    fn assumptions(&self) -> Vec<String> {
        vec![]
    }
}
