//! C05, parts 3 and 4 — configurations in which two or more tap-holds are undecided AT THE SAME TIME.
//!
//! A tap-hold key pressed while another one is pending normally just waits in the input queue. The
//! second tap-hold is started while the first is still undecided (kanata's list of additional waiting
//! actions) only when it is started from inside another action:
//!   * family `chord-group`: the keys of a `defchords` group whose single-key entries are tap-holds;
//!     several keys pressed within the chord timeout that form no chord together decompose into their
//!     single-key tap-holds, which are then pending together;
//!   * family `switch`: one key whose `switch` has two or three `fallthrough` cases that are tap-holds
//!     (the parser refuses two tap-holds directly inside one `multi`, switch is the documented way to
//!     run several actions from one key);
//!   * family `chords-v2`: a `defchordsv2` chord whose action is a tap-hold, pressed while an ordinary
//!     tap-hold key is pending.
//! Judged on the OS stream without a reference model (I1 / I2 of DESIGN.md §4 C05), by counting:
//! every physical key has one or more "lanes"; a lane lists the outputs ("consumers") one press of the
//! key can turn into (the three witness keys of a tap-hold, the key itself, the output of a chord the key
//! takes part in). Per lane the number of outputs equals the number of presses (I1: exactly one
//! tap/hold/timeout witness per tap-hold press; nothing lost or duplicated); when a plain key is output,
//! every press of every other key that was made before it must already have produced its output (I2:
//! nothing overtakes a pending decision, buffered keys are replayed in order); a witness is not output
//! before plain keys pressed before it; nothing is output before its press; nothing is pressed twice;
//! everything is up and the layout is empty after the drain. Plus the statement's timing clause with a
//! safety margin, where the matching of witnesses to presses is unambiguous: a plain `tap-hold` released
//! well before its timeout is a tap; a tap-hold (not the -keys variants, no tap-repress window) held well
//! past its timeout is not a tap.

use super::super::c04::util::*;
use super::{Var, VARS};
use crate::core::rng::Rng;
use crate::core::sim::{code_name, render_hist, Ev, Sim};
use crate::core::{CaseOut, Ctx, Tier};
use serde_json::json;

#[derive(Clone, Copy, Debug, PartialEq, Eq)]
pub enum Fam {
    ChordGroup,
    Switch,
    ChordsV2,
}
impl Fam {
    pub fn name(self) -> &'static str {
        match self {
            Fam::ChordGroup => "chord-group",
            Fam::Switch => "switch",
            Fam::ChordsV2 => "chords-v2",
        }
    }
}
pub const FAMS: [Fam; 3] = [Fam::ChordGroup, Fam::Switch, Fam::ChordsV2];

#[derive(Clone, Copy, Debug)]
pub struct Th {
    pub var: Var,
    pub h: u16,
    pub tapwin: u16,
}

/// what a configuration of one of the families looks like (rendered by `build`)
#[derive(Clone, Debug)]
pub struct Spec {
    pub fam: Fam,
    pub concurrent: bool,
    pub red: u16,
    /// chord timeout (chord-group, chords-v2)
    pub t: u16,
    /// chord-group: tap-holds of a, s, d and of the stand-alone key f;
    /// switch: the cases of key a, then the cases of key d;
    /// chords-v2: the chord (a s), the stand-alone keys d and f
    pub ths: Vec<Th>,
    /// chord-group: which of the multi-key chords (a s) (s d) (a d) (a s d) are defined (bit mask)
    pub combos: u8,
    /// switch: number of tap-hold cases on key a (2..=3) and on key d (1 = an ordinary tap-hold key)
    pub nslots: [usize; 2],
    /// chords-v2: release rule first-release instead of all-released
    pub first_release: bool,
}

pub struct Consumer {
    pub name: String,
    /// physical keys one activation consumes a press of
    pub parts: Vec<usize>,
    /// one output code (plain) or the tap / hold / timeout witnesses
    pub codes: Vec<u16>,
    pub th: Option<Th>,
    /// a plain key outside every chord: its position in the output stream is judged
    pub ordered: bool,
    /// extra margin of the "released well before the timeout" clause
    pub tap_slack: u16,
    /// action of a chords-v2 chord: it is started from the chord machinery, not from the input queue, so
    /// its position relative to plain keys that are still queued is not judged
    pub bypasses_queue: bool,
}

pub struct MCfg {
    pub spec: Spec,
    pub text: String,
    pub label: String,
    pub key_names: Vec<&'static str>,
    pub keys: Vec<u16>,
    /// keys that histories press and release together
    pub units: Vec<Vec<usize>>,
    pub consumers: Vec<Consumer>,
    /// lanes[key] = alternatives groups; every press of the key produces one output in EACH lane
    pub lanes: Vec<Vec<Vec<usize>>>,
    pub gaps: Vec<u32>,
    pub drain: u64,
}

const POOL: [&str; 30] = ["1", "2", "3", "4", "5", "6", "7", "8", "9", "0", "x", "y", "z", "q", "w", "e", "r", "t", "u", "i", "o", "p", "g", "h", "j", "k", "l", "n", "m", "v"];

struct Builder {
    next: usize,
    consumers: Vec<Consumer>,
}
impl Builder {
    fn name(&mut self) -> &'static str {
        let n = POOL[self.next % POOL.len()];
        self.next += 1;
        n
    }
    /// a tap-hold consumer; returns (consumer id, rendered action)
    fn th(&mut self, label: &str, parts: Vec<usize>, th: Th, listed: &str, tap_slack: u16) -> (usize, String) {
        let w = [self.name(), self.name(), self.name()];
        let text = th.var.render(th.tapwin, th.h, w, listed);
        self.consumers.push(Consumer { name: label.to_string(), parts, codes: w.iter().map(|n| kc(n)).collect(), th: Some(th), ordered: false, tap_slack, bypasses_queue: false });
        (self.consumers.len() - 1, text)
    }
    fn plain(&mut self, label: &str, parts: Vec<usize>, key: &'static str, ordered: bool) -> usize {
        self.consumers.push(Consumer { name: label.to_string(), parts, codes: vec![kc(key)], th: None, ordered, tap_slack: 0, bypasses_queue: false });
        self.consumers.len() - 1
    }
}

fn defcfg(spec: &Spec) -> String {
    let mut opts = vec![];
    if spec.concurrent {
        opts.push("concurrent-tap-hold yes".to_string());
    }
    if spec.red != 5 {
        opts.push(format!("rapid-event-delay {}", spec.red));
    }
    if opts.is_empty() {
        String::new()
    } else {
        format!("(defcfg {})\n", opts.join(" "))
    }
}

pub fn build(spec: &Spec) -> MCfg {
    let mut b = Builder { next: 0, consumers: vec![] };
    let mut text = defcfg(spec);
    let key_names: Vec<&'static str>;
    let mut lanes: Vec<Vec<Vec<usize>>>;
    let units: Vec<Vec<usize>>;
    let base_slack = 4u16;
    match spec.fam {
        Fam::ChordGroup => {
            key_names = vec!["a", "s", "d", "f", "b", "c"];
            lanes = vec![vec![vec![]]; 6];
            let mut entries = String::new();
            for k in 0..3 {
                // the decomposed tap-hold of a later key of the group counts its time from the first key of the group
                let (id, t) = b.th(&format!("tap-hold of chord-group key {}", key_names[k]), vec![k], spec.ths[k], "b", base_slack + spec.t);
                lanes[k][0].push(id);
                entries.push_str(&format!("  ({}) {}\n", key_names[k], t));
            }
            let subsets: [&[usize]; 4] = [&[0, 1], &[1, 2], &[0, 2], &[0, 1, 2]];
            for (i, s) in subsets.iter().enumerate() {
                if spec.combos & (1 << i) != 0 {
                    let out = b.name();
                    let names: Vec<&str> = s.iter().map(|k| key_names[*k]).collect();
                    let id = b.plain(&format!("chord ({})", names.join(" ")), s.to_vec(), out, false);
                    for k in s.iter() {
                        lanes[*k][0].push(id);
                    }
                    entries.push_str(&format!("  ({}) {}\n", names.join(" "), out));
                }
            }
            let (idf, tf) = b.th("tap-hold key f", vec![3], spec.ths[3], "b", base_slack);
            lanes[3][0].push(idf);
            let ib = b.plain("plain key b", vec![4], "b", true);
            lanes[4][0].push(ib);
            let ic = b.plain("plain key c", vec![5], "c", true);
            lanes[5][0].push(ic);
            text.push_str("(defsrc a s d f b c)\n");
            text.push_str(&format!("(deflayer l (chord g a) (chord g s) (chord g d) {tf} b c)\n"));
            text.push_str(&format!("(defchords g {}\n{})\n", spec.t, entries));
            units = (0..6).map(|k| vec![k]).collect();
        }
        Fam::Switch => {
            key_names = vec!["a", "d", "b", "c"];
            lanes = vec![vec![], vec![], vec![vec![]], vec![vec![]]];
            let mut acts = vec![];
            let mut ti = 0;
            for (k, &n) in spec.nslots.iter().enumerate() {
                let mut cases = vec![];
                for s in 0..n {
                    let (id, t) = b.th(&format!("tap-hold #{s} of key {}", key_names[k]), vec![k], spec.ths[ti], "b", base_slack + 3);
                    ti += 1;
                    lanes[k].push(vec![id]);
                    cases.push(t);
                }
                if n == 1 {
                    acts.push(cases.remove(0));
                } else {
                    let mut sw = String::from("(switch");
                    for (i, c) in cases.iter().enumerate() {
                        sw.push_str(&format!(" () {c} {}", if i + 1 == cases.len() { "break" } else { "fallthrough" }));
                    }
                    sw.push(')');
                    acts.push(sw);
                }
            }
            let ib = b.plain("plain key b", vec![2], "b", true);
            lanes[2][0].push(ib);
            let ic = b.plain("plain key c", vec![3], "c", true);
            lanes[3][0].push(ic);
            text.push_str("(defsrc a d b c)\n");
            text.push_str(&format!("(deflayer l {} {} b c)\n", acts[0], acts[1]));
            units = (0..4).map(|k| vec![k]).collect();
        }
        Fam::ChordsV2 => {
            key_names = vec!["a", "s", "d", "f", "b", "c"];
            lanes = vec![vec![vec![]]; 6];
            let (idc, tc) = b.th("tap-hold of the v2 chord (a s)", vec![0, 1], spec.ths[0], "b", base_slack + 2);
            b.consumers[idc].bypasses_queue = true;
            let ia = b.plain("key a outside the chord", vec![0], "a", false);
            let is = b.plain("key s outside the chord", vec![1], "s", false);
            lanes[0][0] = vec![ia, idc];
            lanes[1][0] = vec![is, idc];
            let (idd, td) = b.th("tap-hold key d", vec![2], spec.ths[1], "b", base_slack);
            lanes[2][0].push(idd);
            let (idf, tf) = b.th("tap-hold key f", vec![3], spec.ths[2], "b", base_slack);
            lanes[3][0].push(idf);
            let ib = b.plain("plain key b", vec![4], "b", true);
            lanes[4][0].push(ib);
            let ic = b.plain("plain key c", vec![5], "c", true);
            lanes[5][0].push(ic);
            text.push_str("(defsrc a s d f b c)\n");
            text.push_str(&format!("(deflayer l a s {td} {tf} b c)\n"));
            text.push_str(&format!("(defchordsv2 (a s) {tc} {} {} ())\n", spec.t, if spec.first_release { "first-release" } else { "all-released" }));
            units = vec![vec![0, 1], vec![2], vec![3], vec![4], vec![5]];
        }
    }
    let mut gaps: Vec<u32> = vec![0, 0, 1, 1, 2, 5, 6, spec.red as u32 + 1, spec.red as u32 + 3];
    if spec.fam != Fam::Switch {
        let t = spec.t as u32;
        gaps.extend_from_slice(&[t.saturating_sub(1), t, t + 1, t + 1]);
    }
    let mut drain = 40 * (spec.red as u64 + 2) + 300 + 4 * spec.t as u64;
    for th in &spec.ths {
        let h = th.h as u32;
        gaps.extend_from_slice(&[h.saturating_sub(1), h, h + 1, h + 7]);
        if th.tapwin > 0 {
            gaps.push(th.tapwin as u32);
        }
        drain += 4 * (th.h as u64 + th.tapwin as u64);
    }
    let vars: Vec<&str> = spec.ths.iter().map(|t| t.var.name().trim_start_matches("tap-hold").trim_start_matches('-')).collect();
    let label = format!("{}:{}:c{}:r{}:m{}:n{}{}:f{}", spec.fam.name(), vars.join(","), spec.concurrent as u8, spec.red, spec.combos, spec.nslots[0], spec.nslots[1], spec.first_release as u8);
    let keys = key_names.iter().map(|n| kc(n)).collect();
    MCfg { spec: spec.clone(), text, label, key_names, keys, units, consumers: b.consumers, lanes, gaps, drain }
}

fn gen_th(rng: &mut Rng) -> Th {
    let hs = [2u16, 3, 7, 12, 20, 40];
    let h = *rng.pick(&hs);
    // the plain variant is the one whose outcome other keys cannot change, so it carries the timing clause
    let var = if rng.chance(1, 3) { Var::Default } else { *rng.pick(&VARS) };
    Th { var, h, tapwin: if rng.chance(2, 3) { 0 } else { h + 1 + rng.below(6) as u16 } }
}

pub fn gen_spec(rng: &mut Rng, fam: Fam) -> Spec {
    let ths: Vec<Th> = (0..6).map(|_| gen_th(rng)).collect();
    let combos = 1 + rng.below(15) as u8;
    let nslots = [2 + rng.usize(2), 1 + rng.usize(2)];
    let n_th = match fam {
        Fam::ChordGroup => 4,
        Fam::Switch => nslots[0] + nslots[1],
        Fam::ChordsV2 => 3,
    };
    Spec {
        fam,
        concurrent: fam == Fam::ChordsV2 || rng.chance(1, 3),
        red: *rng.pick(&[5u16, 5, 0, 1]),
        t: *rng.pick(&[4u16, 9, 25]),
        ths: ths[..n_th].to_vec(),
        combos,
        nslots,
        first_release: rng.coin(),
    }
}

/// random physically consistent history over the units of the configuration
pub fn gen_hist(rng: &mut Rng, cfg: &MCfg, n_events: usize) -> Vec<Ev> {
    let mut h = vec![];
    let mut down: Vec<usize> = vec![];
    let nu = cfg.units.len();
    let emit = |h: &mut Vec<Ev>, rng: &mut Rng, u: usize, press: bool| {
        let mut ks = cfg.units[u].clone();
        rng.shuffle(&mut ks);
        for (i, k) in ks.iter().enumerate() {
            if i > 0 && rng.chance(1, 6) {
                h.push(Ev::T(1));
            }
            h.push(if press { Ev::P(cfg.keys[*k]) } else { Ev::R(cfg.keys[*k]) });
        }
    };
    for _ in 0..n_events {
        let can_press = down.len() < nu;
        let do_press = if down.is_empty() {
            true
        } else if !can_press {
            false
        } else {
            rng.chance(55, 100)
        };
        let ups: Vec<usize> = (0..nu).filter(|u| !down.contains(u)).collect();
        if do_press && !ups.is_empty() {
            let u = *rng.pick(&ups);
            down.push(u);
            emit(&mut h, rng, u, true);
        } else if !down.is_empty() {
            let i = rng.usize(down.len());
            let u = down.remove(i);
            emit(&mut h, rng, u, false);
        }
        let g = *rng.pick(&cfg.gaps);
        if g > 0 {
            h.push(Ev::T(g));
        }
    }
    rng.shuffle(&mut down);
    for u in down {
        emit(&mut h, rng, u, false);
        let g = *rng.pick(&cfg.gaps);
        if g > 0 {
            h.push(Ev::T(g));
        }
    }
    h
}

/// the keys of a unit are pressed (released) next to each other, at most one tick apart
fn units_intact(cfg: &MCfg, h: &[Ev]) -> bool {
    for u in &cfg.units {
        if u.len() < 2 {
            continue;
        }
        let codes: Vec<u16> = u.iter().map(|k| cfg.keys[*k]).collect();
        let mut i = 0;
        while i < h.len() {
            let (press, c) = match &h[i] {
                Ev::P(c) => (true, *c),
                Ev::R(c) => (false, *c),
                _ => {
                    i += 1;
                    continue;
                }
            };
            if !codes.contains(&c) {
                i += 1;
                continue;
            }
            // the other members must follow directly (a gap of one tick allowed)
            let mut seen = vec![c];
            let mut j = i + 1;
            while seen.len() < codes.len() {
                match h.get(j) {
                    Some(Ev::T(1)) => {}
                    Some(Ev::P(c2)) if press && codes.contains(c2) && !seen.contains(c2) => seen.push(*c2),
                    Some(Ev::R(c2)) if !press && codes.contains(c2) && !seen.contains(c2) => seen.push(*c2),
                    _ => return false,
                }
                j += 1;
            }
            i = j;
        }
    }
    true
}

// ------------------------------------------------------------------ driver

/// (ticks completed at injection, press?, key index)
type In = (u64, bool, usize);
/// (tick, down?, code)
type OutEv = (u64, bool, u16);

#[derive(Default)]
pub struct RunM {
    pub realized: Vec<Ev>,
    pub ins: Vec<In>,
    pub outs: Vec<OutEv>,
    pub repress: Option<u64>,
    pub max_queue: u64,
    pub max_waiting: u64,
    /// ticks that began with the primary waiting slot empty, an additional tap-hold still undecided and input queued
    pub ticks_input_queued_behind_extra_only: u64,
    pub ticks_two_pending: u64,
    pub unsettled: Option<String>,
    pub all_up: bool,
    /// parallel to `ins`: the event was injected while nothing was queued, pending or paused
    pub prompt: Vec<bool>,
    down_codes: Vec<u16>,
}

fn nothing_pending(sim: &Sim) -> bool {
    let l = sim.k.layout.b();
    l.waiting.is_none()
        && l.queue.is_empty()
        && l.extra_waiting.is_empty()
        && l.action_queue.is_empty()
        && l.oneshot.pause_input_processing_ticks == 0
        && l.chords_v2.as_ref().map(|c| c.is_idle_chv2()).unwrap_or(true)
}

fn settled(sim: &Sim) -> bool {
    let l = sim.k.layout.b();
    l.states.is_empty()
        && l.waiting.is_none()
        && l.queue.is_empty()
        && l.extra_waiting.is_empty()
        && l.action_queue.is_empty()
        && l.oneshot.pause_input_processing_ticks == 0
        && l.last_press_tracker.tap_hold_timeout == 0
        && l.chords_v2.as_ref().map(|c| c.is_idle_chv2()).unwrap_or(true)
}

fn describe_unsettled(sim: &Sim) -> String {
    let l = sim.k.layout.b();
    format!("states={:?} waiting={} queue={} extra_waiting={} action_queue={}", l.states, l.waiting.is_some(), l.queue.len(), l.extra_waiting.len(), l.action_queue.len())
}

/// run a planned history; whenever the layout queue is about to exceed 27 entries the driver lets
/// time pass first (the realized history is what the witness records)
pub fn run_on(sim: &mut Sim, cfg: &MCfg, planned: &[Ev]) -> RunM {
    let t0 = sim.now;
    let mut r = RunM { all_up: true, ..Default::default() };
    fn step(sim: &mut Sim, r: &mut RunM, t0: u64) {
        {
            let l = sim.k.layout.b();
            let depth = l.waiting.is_some() as u64 + l.extra_waiting.len() as u64;
            if depth >= 2 {
                r.ticks_two_pending += 1;
            }
            if l.waiting.is_none() && !l.extra_waiting.is_empty() && !l.queue.is_empty() && l.action_queue.is_empty() {
                r.ticks_input_queued_behind_extra_only += 1;
            }
        }
        sim.tick();
        let t = sim.now - t0;
        for o in sim.last() {
            if o.repress && r.repress.is_none() {
                r.repress = Some(t);
            }
        }
        for o in kanata_outs(sim.last()) {
            r.outs.push((t, o.0, o.1));
            if o.0 {
                r.down_codes.push(o.1);
            } else {
                r.down_codes.retain(|c| *c != o.1);
            }
        }
        let l = sim.k.layout.b();
        r.max_waiting = r.max_waiting.max(l.waiting.is_some() as u64 + l.extra_waiting.len() as u64);
    }
    // witness keys of actions that are started past the input queue (chords v2): while one of them is
    // still down, a new activation that presses the same key again would be invisible at the OS
    // Such a key is therefore pressed again only after its previous press has produced its output and that
    // output has been released (the driver lets time pass, the realized history is recorded).
    let bypass_codes: Vec<Vec<u16>> = (0..cfg.keys.len())
        .map(|k| if cfg.consumers.iter().any(|c| c.bypasses_queue && c.parts.contains(&k)) { cfg.consumers.iter().filter(|c| c.parts.contains(&k)).flat_map(|c| c.codes.iter().copied()).collect() } else { vec![] })
        .collect();
    let mut n_pressed = vec![0usize; cfg.keys.len()];
    let mut prev_was_gap = true;
    for e in planned {
        match e {
            Ev::T(n) => {
                for _ in 0..*n {
                    step(sim, &mut r, t0);
                }
                r.realized.push(e.clone());
                prev_was_gap = *n > 1;
            }
            Ev::P(code) | Ev::R(code) => {
                let mut extra = 0u32;
                // not between the keys of a unit
                while prev_was_gap && sim.k.layout.b().queue.len() >= 24 && extra < 3000 {
                    step(sim, &mut r, t0);
                    extra += 1;
                }
                let Some(k) = cfg.keys.iter().position(|x| x == code) else { continue };
                let press = matches!(e, Ev::P(_));
                while press
                    && extra < 3000
                    && !bypass_codes[k].is_empty()
                    && (bypass_codes[k].iter().any(|c| r.down_codes.contains(c)) || r.outs.iter().filter(|o| o.1 && bypass_codes[k].contains(&o.2)).count() < n_pressed[k])
                {
                    step(sim, &mut r, t0);
                    extra += 1;
                }
                if extra > 0 {
                    r.realized.push(Ev::T(extra));
                }
                prev_was_gap = false;
                r.prompt.push(nothing_pending(sim));
                if press {
                    n_pressed[k] += 1;
                    sim.press(*code);
                } else {
                    sim.release(*code);
                }
                r.ins.push((sim.now - t0, press, k));
                r.realized.push(e.clone());
                r.max_queue = r.max_queue.max(sim.k.layout.b().queue.len() as u64);
            }
            _ => {}
        }
    }
    let mut quiet = 0;
    let mut n = 0;
    while n < cfg.drain {
        let before = r.outs.len();
        step(sim, &mut r, t0);
        n += 1;
        if r.outs.len() == before && settled(sim) {
            quiet += 1;
            if quiet >= 3 {
                break;
            }
        } else {
            quiet = 0;
        }
    }
    if !settled(sim) {
        r.unsettled = Some(describe_unsettled(sim));
    }
    r.all_up = sim.os.all_up();
    r
}

// ------------------------------------------------------------------ oracle

#[derive(Default, Debug)]
pub struct MStats {
    pub th_presses: u64,
    pub witnesses: [u64; 3],
    pub chord_outputs: u64,
    pub plain_outputs: u64,
    pub order_checks: u64,
    pub buffered_presses: u64,
    pub max_buffered: u64,
    pub timing_tap_checks: u64,
    pub timing_hold_checks: u64,
    pub tap_after_release_checks: u64,
}

fn kind_name(k: usize) -> &'static str {
    ["tap", "hold", "timeout"].get(k).copied().unwrap_or("plain")
}

pub fn judge(cfg: &MCfg, r: &RunM) -> Result<MStats, (String, String)> {
    if let Some(t) = r.repress {
        return Err(("C05:repress".into(), format!("tick {t}: a key that is already down was pressed again")));
    }
    if let Some(u) = &r.unsettled {
        return Err(("C05:not-settled".into(), format!("after the drain: {u}")));
    }
    let nk = cfg.keys.len();
    let mut st = MStats::default();
    // presses / releases per key with their global press index
    let mut presses: Vec<Vec<(u64, usize)>> = vec![vec![]; nk];
    let mut releases: Vec<Vec<u64>> = vec![vec![]; nk];
    let mut n_press = 0usize;
    let mut press_pos: Vec<Vec<usize>> = vec![vec![]; nk];
    for (pos, e) in r.ins.iter().enumerate() {
        if e.1 {
            presses[e.2].push((e.0, n_press));
            press_pos[e.2].push(pos);
            n_press += 1;
        } else {
            releases[e.2].push(e.0);
        }
    }
    let lane_has_th = |k: usize, l: usize| cfg.lanes[k][l].iter().any(|c| cfg.consumers[*c].th.is_some());
    let lane_plain_ordered = |k: usize, l: usize| cfg.lanes[k][l].iter().all(|c| cfg.consumers[*c].ordered);
    let class_of = |code: u16| -> Option<(usize, usize)> {
        for (ci, c) in cfg.consumers.iter().enumerate() {
            if let Some(i) = c.codes.iter().position(|x| *x == code) {
                return Some((ci, if c.th.is_some() { i } else { 3 }));
            }
        }
        None
    };
    let mut lane_count: Vec<Vec<usize>> = cfg.lanes.iter().map(|l| vec![0; l.len()]).collect();
    // per consumer: (kind, tick) of each activation, in order
    let mut acts: Vec<Vec<(usize, u64)>> = vec![vec![]; cfg.consumers.len()];
    for o in r.outs.iter().filter(|o| o.1) {
        let Some((ci, kind)) = class_of(o.2) else {
            return Err(("C05:unexpected-output-key".into(), format!("key {} pressed at tick {} belongs to no configured action", code_name(o.2), o.0)));
        };
        let c = &cfg.consumers[ci];
        acts[ci].push((kind, o.0));
        let mut idx_max = 0usize;
        let mut idx_min = usize::MAX;
        for &k in &c.parts {
            for (li, lane) in cfg.lanes[k].iter().enumerate() {
                if !lane.contains(&ci) {
                    continue;
                }
                lane_count[k][li] += 1;
                let j = lane_count[k][li];
                let Some(&(t_in, idx)) = presses[k].get(j - 1) else {
                    let (sig, what) = if lane_has_th(k, li) {
                        ("C05:I1:more-than-one-activation", format!("{} presses of key {} produced a {}th activation ({} at tick {}, {})", presses[k].len(), cfg.key_names[k], j, code_name(o.2), o.0, c.name))
                    } else {
                        ("C05:I2:key-duplicated", format!("{} presses of plain key {} produced a {}th output press at tick {}", presses[k].len(), cfg.key_names[k], j, o.0))
                    };
                    return Err((sig.into(), what));
                };
                if o.0 <= t_in {
                    return Err(("C05:output-before-input".into(), format!("press #{j} of key {} was injected after tick {t_in}, its output {} appears in tick {}", cfg.key_names[k], code_name(o.2), o.0)));
                }
                idx_max = idx_max.max(idx);
                idx_min = idx_min.min(idx);
            }
        }
        if c.th.is_some() {
            st.th_presses += 1;
            if kind < 3 {
                st.witnesses[kind] += 1;
            }
        } else if c.parts.len() > 1 {
            st.chord_outputs += 1;
        } else {
            st.plain_outputs += 1;
        }
        // ordering
        if c.ordered || (c.th.is_some() && !c.bypasses_queue) {
            let my_idx = if c.ordered { idx_max } else { idx_min };
            let mut behind = 0u64;
            for k2 in 0..nk {
                if c.parts.contains(&k2) {
                    continue;
                }
                let needed = presses[k2].iter().filter(|p| p.1 < my_idx).count();
                let later = presses[k2].iter().filter(|p| p.1 > my_idx && p.0 < o.0).count();
                behind += later as u64;
                for li in 0..cfg.lanes[k2].len() {
                    st.order_checks += 1;
                    let have = lane_count[k2][li];
                    if have >= needed {
                        continue;
                    }
                    if c.ordered && lane_has_th(k2, li) {
                        return Err((
                            "C05:I2:key-output-before-decision".into(),
                            format!("plain key {} (press injected after tick {}) is output at tick {} although press #{} of tap-hold key {} made before it is still undecided ({} of {} earlier presses resolved)", cfg.key_names[c.parts[0]], presses[c.parts[0]][lane_count[c.parts[0]][0] - 1].0, o.0, have + 1, cfg.key_names[k2], have, needed),
                        ));
                    }
                    if lane_plain_ordered(k2, li) {
                        return Err((
                            "C05:I2:reordered".into(),
                            format!("{} is output at tick {} ({}) before press #{} of plain key {} that was made earlier", code_name(o.2), o.0, c.name, have + 1, cfg.key_names[k2]),
                        ));
                    }
                }
            }
            if c.th.is_some() {
                st.buffered_presses += behind;
                st.max_buffered = st.max_buffered.max(behind);
            }
        }
    }
    for k in 0..nk {
        for li in 0..cfg.lanes[k].len() {
            if lane_count[k][li] != presses[k].len() {
                let (sig, what) = if lane_has_th(k, li) {
                    ("C05:I1:no-activation", format!("{} presses of key {} produced only {} activations of {}", presses[k].len(), cfg.key_names[k], lane_count[k][li], cfg.lanes[k][li].iter().map(|c| cfg.consumers[*c].name.clone()).collect::<Vec<_>>().join(" / ")))
                } else {
                    ("C05:I2:key-lost", format!("{} presses of plain key {} produced only {} output presses", presses[k].len(), cfg.key_names[k], lane_count[k][li]))
                };
                return Err((sig.into(), what));
            }
        }
    }
    if !r.all_up {
        return Err(("C05:stuck-at-end".into(), "a key is still down after every physical key was released and the drain".into()));
    }
    // timing clause with margins, where witness j belongs to press j beyond doubt
    let mut deferred: Option<(String, String)> = None;
    for (ci, c) in cfg.consumers.iter().enumerate() {
        let Some(th) = c.th else { continue };
        let exclusive = c.parts.iter().all(|&k| cfg.lanes[k].iter().filter(|l| l.contains(&ci)).all(|l| l.iter().all(|c2| *c2 == ci || acts[*c2].is_empty())));
        if !exclusive {
            continue;
        }
        for (j, &(kind, tick)) in acts[ci].iter().enumerate() {
            let mut p_first = u64::MAX;
            let mut p_last = 0;
            let mut r_first = u64::MAX;
            let mut r_last = 0;
            let mut complete = true;
            for &k in &c.parts {
                match (presses[k].get(j), releases[k].get(j)) {
                    (Some(p), Some(rl)) => {
                        p_first = p_first.min(p.0);
                        p_last = p_last.max(p.0);
                        r_first = r_first.min(*rl);
                        r_last = r_last.max(*rl);
                    }
                    _ => complete = false,
                }
            }
            if !complete {
                continue;
            }
            let h = th.h as u64;
            let g_max = r_last.saturating_sub(p_first);
            let g_min = r_first.saturating_sub(p_last);
            if th.var == Var::Default && !cfg.spec.concurrent && g_max + c.tap_slack as u64 <= h {
                st.timing_tap_checks += 1;
                if kind != 0 {
                    return Err((
                        format!("C05:timing:released-well-before-timeout:{}-observed", kind_name(kind)),
                        format!("{}: press #{} was released {} ticks after the press (H={}), but resolved to the {} action at tick {}", c.name, j + 1, g_max, h, kind_name(kind), tick),
                    ));
                }
            }
            let tap_only_on_release = th.tapwin == 0 && !matches!(th.var, Var::ReleaseKeys | Var::ExceptKeys);
            if tap_only_on_release && kind == 0 {
                // without a tap-repress window and without listed keys, tap is chosen by the release only
                st.tap_after_release_checks += 1;
                if tick <= r_first {
                    // structural precondition of the known chord-group defect (findings/C05-chord-group-stale-release.md):
                    // the release of ANOTHER key of the chord group was injected after this press and before its decision
                    let stale_release = cfg.spec.fam == Fam::ChordGroup
                        && c.parts.len() == 1
                        && c.parts[0] < 3
                        && r.ins.iter().enumerate().any(|(pos, e)| !e.1 && e.2 < 3 && e.2 != c.parts[0] && pos > press_pos[c.parts[0]][j] && e.0 < tick);
                    let sig = if stale_release { "C05:tap-before-release:other-chord-group-key-released-while-press-queued" } else { "C05:tap-before-release" };
                    let e = (
                        sig.to_string(),
                        format!("{}: press #{} (injected after tick {}) resolved to the tap action at tick {}, but the key was released only after tick {}{}", c.name, j + 1, p_last, tick, r_first, if stale_release { " (another key of the chord group was released between this press and its decision)" } else { "" }),
                    );
                    if !stale_release {
                        return Err(e);
                    }
                    // the recorded class is reported only if nothing else is wrong with this history
                    if deferred.is_none() {
                        deferred = Some(e);
                    }
                    continue;
                }
            }
            // the press was processed at once (nothing queued, pending or paused when it was injected)
            let prompt = c.parts.iter().all(|&k| press_pos[k].get(j).map(|pos| r.prompt.get(*pos).copied().unwrap_or(false)).unwrap_or(false)) || (c.parts.len() > 1 && c.parts.iter().any(|&k| press_pos[k].get(j).map(|pos| r.prompt.get(*pos).copied().unwrap_or(false)).unwrap_or(false)) && p_last == p_first);
            if tap_only_on_release && prompt && g_min >= h + 4 {
                st.timing_hold_checks += 1;
                if kind == 0 {
                    return Err((
                        "C05:timing:held-well-past-timeout:tap-observed".into(),
                        format!("{}: press #{} was held for {} ticks (H={}) and was not queued behind anything, but resolved to the tap action at tick {}", c.name, j + 1, g_min, h, tick),
                    ));
                }
            }
        }
    }
    if let Some(e) = deferred {
        return Err(e);
    }
    Ok(st)
}

// ------------------------------------------------------------------ judging one history (fresh instance), witness

pub fn judge_fresh(cfg: &MCfg, planned: &[Ev]) -> Option<(RunM, Result<MStats, (String, String)>)> {
    let mut sim = Sim::new(&cfg.text).ok()?;
    let r = run_on(&mut sim, cfg, planned);
    let v = judge(cfg, &r);
    Some((r, v))
}

fn fmt_outs(outs: &[OutEv]) -> Vec<String> {
    outs.iter().map(|o| format!("@{}: {}{}", o.0, if o.1 { "↓" } else { "↑" }, code_name(o.2))).collect()
}

const EXPECTED: &str = "per lane exactly one output per press (one tap/hold/timeout witness per tap-hold press); a plain key is output only after every press made before it has been resolved; everything released and the layout empty after the drain";

/// `first` = verdict seen (possibly on a reused instance); re-judge on a fresh instance, minimise, report
pub fn report(out: &mut CaseOut, cfg: &MCfg, h: &[Ev], first: &(String, String), part: &str) {
    let fresh = judge_fresh(cfg, h);
    match fresh {
        Some((r, Err((sig0, what0)))) => {
            let sig_c = sig0.clone();
            let hm = minimise_hist(&r.realized, &mut |c| units_intact(cfg, c) && judge_fresh(cfg, c).map(|(_, v)| matches!(v, Err((s, _)) if s == sig_c)).unwrap_or(false));
            let (r2, what2) = match judge_fresh(cfg, &hm) {
                Some((r2, Err((_, w)))) => (r2, w),
                _ => (r, what0),
            };
            out.violate(
                sig0,
                what2,
                json!({"part": part, "family": cfg.spec.fam.name(), "config": cfg.text, "params": cfg.label, "history": render_hist(&r2.realized), "original_history": render_hist(h), "observed": fmt_outs(&r2.outs), "expected": EXPECTED, "reproduced_on_fresh_instance": true}),
            );
        }
        Some((_, Ok(_))) => {
            out.violate(
                format!("C05:carry-over:{}", first.0.trim_start_matches("C05:")),
                format!("{} (only after earlier histories on the same instance)", first.1),
                json!({"part": part, "family": cfg.spec.fam.name(), "config": cfg.text, "params": cfg.label, "history": render_hist(h), "observed": first.1, "expected": EXPECTED, "reproduced_on_fresh_instance": false}),
            );
        }
        None => {
            out.violate("C05:config-rejected", "multi-pending configuration rejected", json!({"config": cfg.text, "history": "", "observed": "parse error", "expected": "accepted"}));
        }
    }
}

fn account(out: &mut CaseOut, cfg: &MCfg, r: &RunM, s: &MStats) {
    let f = cfg.spec.fam.name();
    out.inc("schedules");
    out.inc("schedules_multi_pending_families");
    out.inc(&format!("schedules_family_{f}"));
    out.max("queue_len", r.max_queue);
    out.max("waiting_depth", r.max_waiting);
    if r.max_waiting >= 2 {
        out.inc("schedules_with_two_tap_holds_pending");
        out.inc(&format!("schedules_with_two_tap_holds_pending_{f}"));
    }
    if r.max_waiting >= 3 {
        out.inc("schedules_with_three_tap_holds_pending");
    }
    out.count("ticks_two_tap_holds_pending", r.ticks_two_pending);
    // longer than the input pause that follows a decision: only then does "the queue stays frozen" show
    if r.ticks_input_queued_behind_extra_only > cfg.spec.red as u64 + 1 {
        out.inc("schedules_input_queued_behind_extra_only");
        out.inc(&format!("schedules_input_queued_behind_extra_only_{f}"));
    }
    out.count("tap_hold_presses", s.th_presses);
    out.count("tap_hold_presses_multi_pending_families", s.th_presses);
    out.count("outcome_tap", s.witnesses[0]);
    out.count("outcome_hold", s.witnesses[1]);
    out.count("outcome_timeout_action", s.witnesses[2]);
    out.count("multi_outcome_tap", s.witnesses[0]);
    out.count("multi_outcome_hold", s.witnesses[1]);
    out.count("multi_outcome_timeout_action", s.witnesses[2]);
    out.count("multi_chord_outputs", s.chord_outputs);
    out.count("multi_order_checks", s.order_checks);
    out.count("buffered_key_presses", s.buffered_presses);
    out.max("buffered_behind_one_decision", s.max_buffered);
    out.count("multi_timing_tap_checks", s.timing_tap_checks);
    out.count("multi_timing_hold_checks", s.timing_hold_checks);
    out.count("multi_tap_after_release_checks", s.tap_after_release_checks);
}

// ------------------------------------------------------------------ part 3: systematic (seed-independent)

/// fixed configurations: the first tap-hold has a short timeout, the second a long one (and the
/// other way round), every variant for the one with a plain `tap-hold` for the other; with the
/// number of events up to which all schedules are enumerated
fn sys_specs(tier: Tier) -> Vec<(Spec, usize)> {
    let mut v = vec![];
    let hl = 30u16;
    let dd = (Var::Default, Var::Default);
    let pairs: Vec<(Var, Var)> = {
        let mut p = vec![dd];
        let others: &[Var] = tier.sel(&[Var::Press, Var::Release, Var::ReleaseKeys][..], &VARS[1..]);
        for &o in others {
            p.push((o, Var::Default));
            p.push((Var::Default, o));
        }
        p
    };
    for fam in FAMS {
        // chords v2 ignore a chord pressed less than 5 ms (chords-v2-min-idle) after another key, so the
        // short timeout must leave room for the chord to be pressed while the other key is pending
        let hs = if fam == Fam::ChordsV2 { 16u16 } else { 8 };
        for &(v0, v1) in &pairs {
            for swap in [false, true] {
                for concurrent in [false, true] {
                    if fam == Fam::ChordsV2 && !concurrent {
                        continue;
                    }
                    if tier == Tier::Quick && (v0, v1) != dd && (swap || (concurrent && fam != Fam::ChordsV2)) {
                        continue;
                    }
                    // chords-v2: ths[0] is the chord, which has to be the one that is pending longer
                    let swap = if fam == Fam::ChordsV2 { !swap } else { swap };
                    let (h0, h1) = if swap { (hl, hs) } else { (hs, hl) };
                    let t0 = Th { var: v0, h: h0, tapwin: 0 };
                    let t1 = Th { var: v1, h: h1, tapwin: 0 };
                    let filler = Th { var: Var::Default, h: 12, tapwin: 0 };
                    let ths = match fam {
                        // keys a and d of the group; s and f are not pressed
                        Fam::ChordGroup => vec![t0, filler, t1, filler],
                        Fam::Switch => vec![t0, t1, filler],
                        // the chord and key d
                        Fam::ChordsV2 => vec![t0, t1, filler],
                    };
                    let n = match tier {
                        Tier::Quick => 5,
                        Tier::Thorough => {
                            if (v0, v1) == dd {
                                6
                            } else {
                                5
                            }
                        }
                    };
                    v.push((Spec { fam, concurrent, red: 5, t: 4, ths, combos: 0b0001, nslots: [2, 1], first_release: false }, n));
                }
            }
        }
    }
    v
}

/// units pressed by the systematic schedules
fn sys_units(fam: Fam) -> [usize; 3] {
    match fam {
        // a, d (no chord (a d)), b
        Fam::ChordGroup => [0, 2, 4],
        // a (switch with two tap-holds), d (tap-hold), b
        Fam::Switch => [0, 1, 2],
        // the chord (a s), d (tap-hold), b
        Fam::ChordsV2 => [0, 1, 3],
    }
}
const SYS_GAPS: [u32; 5] = [0, 1, 6, 9, 31];

pub fn n_sys_cases(tier: Tier) -> u64 {
    sys_specs(tier).len() as u64 * 9
}

fn unit_schedule_to_hist(cfg: &MCfg, units: &[usize; 3], keys: &[usize], gaps: &[usize], tail: u32) -> Vec<Ev> {
    let mut h = vec![];
    let mut down = [false; 3];
    let emit = |h: &mut Vec<Ev>, u: usize, press: bool| {
        for k in &cfg.units[units[u]] {
            h.push(if press { Ev::P(cfg.keys[*k]) } else { Ev::R(cfg.keys[*k]) });
        }
    };
    for (i, &u) in keys.iter().enumerate() {
        if i > 0 {
            let g = SYS_GAPS[gaps[i]];
            if g > 0 {
                h.push(Ev::T(g));
            }
        }
        emit(&mut h, u, !down[u]);
        down[u] = !down[u];
    }
    let mut first = true;
    for u in 0..3 {
        if down[u] {
            h.push(Ev::T(if first { tail } else { 1 }));
            first = false;
            emit(&mut h, u, false);
        }
    }
    h
}

pub fn describe_sys(tier: Tier, j: u64) -> serde_json::Value {
    let specs = sys_specs(tier);
    let (spec, n) = &specs[(j / 9) as usize];
    let cfg = build(spec);
    json!({"part": "multi-pending-systematic", "family": cfg.spec.fam.name(), "config": cfg.text, "first_two_units": [(j % 9) / 3, j % 3], "max_events": n, "gaps": SYS_GAPS})
}

pub fn run_sys(ctx: &Ctx, j: u64, out: &mut CaseOut) {
    let specs = sys_specs(ctx.tier);
    let (spec, n_events) = &specs[(j / 9) as usize];
    let n_events = *n_events;
    let cfg = build(spec);
    let p0 = ((j % 9) / 3) as usize;
    let p1 = (j % 3) as usize;
    let units = sys_units(spec.fam);
    let Ok(mut sim) = Sim::new(&cfg.text) else {
        out.violate("C05:config-rejected", "multi-pending configuration rejected", json!({"config": cfg.text, "history": "", "observed": "parse error", "expected": "accepted"}));
        return;
    };
    let mut bads: Vec<(Vec<Ev>, (String, String))> = vec![];
    let mut n_bad = 0usize;
    for len in 2..=n_events {
        for_each_schedule(3, SYS_GAPS.len(), len, &[p0, p1], |keys, gaps| {
            let h = unit_schedule_to_hist(&cfg, &units, keys, gaps, 33);
            let r = run_on(&mut sim, &cfg, &h);
            out.inc("schedules_multi_pending_systematic");
            match judge(&cfg, &r) {
                Ok(s) => {
                    account(out, &cfg, &r, &s);
                    clear_trace(&mut sim);
                }
                Err(e) => {
                    // one witness per signature; a class that is already recorded (e.g. a known finding)
                    // must not end the enumeration before the other schedules of the case were judged
                    n_bad += 1;
                    if !bads.iter().any(|b| b.1 .0 == e.0) {
                        bads.push((h, e));
                    }
                    match Sim::new(&cfg.text) {
                        Ok(s) => sim = s,
                        Err(_) => return false,
                    }
                }
            }
            if gaps.iter().all(|g| *g == 0) {
                let ks: String = keys.iter().map(|k| char::from(b'0' + *k as u8)).collect();
                out.tag(format!("MS:{}:{ks}", cfg.label));
            }
            bads.len() < 4 && n_bad < 2000
        });
        if bads.len() >= 4 || n_bad >= 2000 {
            break;
        }
    }
    for (h, e) in bads.iter().take(4) {
        report(out, &cfg, h, e, "multi-pending-systematic");
    }
    if j % 9 == 1 && (j / 9) % 7 == 0 {
        out.sample = Some(json!({"part": "multi-pending-systematic", "family": cfg.spec.fam.name(), "config": cfg.text, "first_two_units": [p0, p1], "max_events": n_events, "gaps": SYS_GAPS,
            "example_history": render_hist(&unit_schedule_to_hist(&cfg, &units, &[0, 1, 0, 2, 2], &[0, 1, 3, 2, 1], 33))}));
    }
}

// ------------------------------------------------------------------ part 4: random

pub fn n_rand_cases(tier: Tier) -> u64 {
    tier.sel(1_500, 30_000)
}

pub fn rand_case(ctx: &Ctx, j: u64) -> (MCfg, Vec<Vec<Ev>>) {
    let mut rng = Rng::for_case(ctx.seed, "C05", "multi-pending", j);
    let fam = FAMS[(j % 3) as usize];
    let spec = gen_spec(&mut rng, fam);
    let cfg = build(&spec);
    let mut hs = vec![];
    for _ in 0..4 {
        let n = 8 + rng.usize(40);
        hs.push(gen_hist(&mut rng, &cfg, n));
    }
    (cfg, hs)
}

pub fn describe_rand(ctx: &Ctx, j: u64) -> serde_json::Value {
    let (cfg, hs) = rand_case(ctx, j);
    json!({"part": "multi-pending-random", "family": cfg.spec.fam.name(), "config": cfg.text, "histories": hs.iter().map(|h| render_hist(h)).collect::<Vec<_>>()})
}

pub fn run_rand(ctx: &Ctx, j: u64, out: &mut CaseOut) {
    let (cfg, hs) = rand_case(ctx, j);
    if ctx.verbose {
        eprintln!("config:\n{}", cfg.text);
    }
    let mut seen: Vec<String> = vec![];
    for (hi, h) in hs.iter().enumerate() {
        let Some((r, v)) = judge_fresh(&cfg, h) else {
            out.violate("C05:config-rejected", "multi-pending configuration rejected", json!({"config": cfg.text, "history": "", "observed": "parse error", "expected": "accepted"}));
            return;
        };
        if ctx.verbose {
            eprintln!("history {hi}: {}\n  out: {:?}", render_hist(&r.realized), fmt_outs(&r.outs));
        }
        out.inc("schedules_multi_pending_random");
        match v {
            Ok(s) => account(out, &cfg, &r, &s),
            Err(e) => {
                // one witness per signature and case; the other histories are still judged
                if !seen.contains(&e.0) {
                    seen.push(e.0.clone());
                    report(out, &cfg, &r.realized, &e, "multi-pending-random");
                }
            }
        }
    }
    out.tag(format!("MR:{}", cfg.label));
    if j % 500 == 7 {
        out.sample = Some(json!({"part": "multi-pending-random", "family": cfg.spec.fam.name(), "config": cfg.text, "history": render_hist(&hs[0])}));
    }
}
