//! C05 — tap-hold resolves every press to exactly one of tap / hold / timeout, on time.
//!
//! Tap, hold and timeout actions are distinct witness keys, so the outcome of every tap-hold press
//! is read off the OS stream.
//!   I1  every tap-hold press produces exactly one witness press (never two, never none);
//!   I2  output presses appear in the order of the input presses: nothing pressed after a tap-hold
//!       key is output before that key's decision, buffered keys are replayed in order, none lost
//!       or duplicated; nothing is down at the end;
//!   I3  the per-tick output equals the tap-hold reference model (DESIGN.md appendix E.2), and, for
//!       the "no other input" clause, the statement is checked directly on the stream.
//!
//! Parts 1 (exhaustive, one tap-hold key, model) and 2 (random, two tap-hold keys, I1/I2) are in this
//! file. In both only ONE tap-hold is ever undecided at a time (a second tap-hold key just waits in the
//! input queue). Parts 3 (systematic) and 4 (random) in `c05_multi.rs` cover the configurations in which
//! SEVERAL tap-holds are undecided together (keys of a `defchords` group whose single-key entries are
//! tap-holds and that decompose; a `switch` with several tap-hold cases; a `defchordsv2` chord whose action
//! is a tap-hold pressed while a tap-hold key is pending), judged model-free: I1, I2 (by counting per
//! key), "tap only after the release", and the statement's timing with a safety margin.

use super::c04::util::*;
use crate::core::rng::Rng;
use crate::core::sim::{code_name, render_hist, Ev, Sim};
use crate::core::{CaseOut, Check, Ctx, Tier};
use serde_json::{json, Value};
use std::collections::VecDeque;

#[path = "c05_multi.rs"]
pub mod multi;

pub struct C05Check;
pub static C05: C05Check = C05Check;

// ------------------------------------------------------------------ configuration description

#[derive(Clone, Copy, Debug, PartialEq, Eq)]
pub enum Var {
    Default,
    Press,
    Release,
    PressTimeout,
    ReleaseTimeout,
    ReleaseKeys,
    ExceptKeys,
}
pub const VARS: [Var; 7] = [Var::Default, Var::Press, Var::Release, Var::PressTimeout, Var::ReleaseTimeout, Var::ReleaseKeys, Var::ExceptKeys];

impl Var {
    fn name(self) -> &'static str {
        match self {
            Var::Default => "tap-hold",
            Var::Press => "tap-hold-press",
            Var::Release => "tap-hold-release",
            Var::PressTimeout => "tap-hold-press-timeout",
            Var::ReleaseTimeout => "tap-hold-release-timeout",
            Var::ReleaseKeys => "tap-hold-release-keys",
            Var::ExceptKeys => "tap-hold-except-keys",
        }
    }
    fn has_timeout_action(self) -> bool {
        matches!(self, Var::PressTimeout | Var::ReleaseTimeout)
    }
    /// render with witness keys (tap, hold, timeout) and the listed key
    fn render(self, tapwin: u16, h: u16, w: [&str; 3], listed: &str) -> String {
        match self {
            Var::Default | Var::Press | Var::Release => format!("({} {tapwin} {h} {} {})", self.name(), w[0], w[1]),
            Var::PressTimeout | Var::ReleaseTimeout => format!("({} {tapwin} {h} {} {} {})", self.name(), w[0], w[1], w[2]),
            Var::ReleaseKeys | Var::ExceptKeys => format!("({} {tapwin} {h} {} {} ({listed}))", self.name(), w[0], w[1]),
        }
    }
}

/// parameters of the single-tap-hold-key configurations: physical keys a (tap-hold), b (the listed
/// key of the -keys variants), c
#[derive(Clone, Copy, Debug)]
pub struct P {
    pub var: Var,
    pub h: u16,
    pub tapwin: u16,
    pub concurrent: bool,
    pub red: u16,
}

impl P {
    pub fn render(&self) -> String {
        let mut opts = vec![];
        if self.concurrent {
            opts.push("concurrent-tap-hold yes".to_string());
        }
        if self.red != 5 {
            opts.push(format!("rapid-event-delay {}", self.red));
        }
        let mut s = String::new();
        if !opts.is_empty() {
            s.push_str(&format!("(defcfg {})\n", opts.join(" ")));
        }
        s.push_str("(defsrc a b c)\n");
        s.push_str(&format!("(deflayer l {} b c)\n", self.var.render(self.tapwin, self.h, ["x", "y", "z"], "b")));
        s
    }
    fn label(&self) -> String {
        format!("{}:H{}:W{}:c{}:r{}", self.var.name(), self.h, self.tapwin, self.concurrent as u8, self.red)
    }
}

// ------------------------------------------------------------------ reference model (appendix E.2)

#[derive(Clone, Copy, Debug, PartialEq)]
pub enum Dec {
    Tap,
    Hold,
    Timeout,
}
struct W {
    timeout: u16,
    delay: u16,
}

pub struct Model {
    p: P,
    q: VecDeque<(bool, usize, u16)>,
    w: Option<W>,
    pause: u16,
    st: Vec<(usize, u16)>,
    diff: OsDiff,
    lpt_coord: usize,
    lpt_t: u16,
    codes: [u16; 5], // X Y Z B C
    pub decisions: Vec<Dec>,
    pub quick_repress: u64,
}

impl Model {
    pub fn new(p: P) -> Self {
        Model {
            p,
            q: VecDeque::new(),
            w: None,
            pause: 0,
            st: vec![],
            diff: OsDiff::default(),
            lpt_coord: 99,
            lpt_t: 0,
            codes: [kc("x"), kc("y"), kc("z"), kc("b"), kc("c")],
            decisions: vec![],
            quick_repress: 0,
        }
    }
    pub fn push(&mut self, press: bool, k: usize) {
        self.q.push_back((press, k, 0));
    }
    pub fn quiescent(&self) -> bool {
        self.q.is_empty() && self.w.is_none() && self.pause == 0 && self.st.is_empty() && self.lpt_t == 0 && self.diff.all_up()
    }
    fn decide(&self, w: &W) -> Option<Dec> {
        let presses: Vec<(usize, usize)> = self.q.iter().enumerate().filter(|(_, e)| e.0).map(|(i, e)| (i, e.1)).collect();
        let released_later = |i: usize, k: usize| self.q.iter().skip(i + 1).any(|e| !e.0 && e.1 == k);
        let mut skip_timeout = false;
        match self.p.var {
            Var::Default => {}
            Var::Press | Var::PressTimeout => {
                if !presses.is_empty() {
                    return Some(Dec::Hold);
                }
            }
            Var::Release | Var::ReleaseTimeout => {
                for &(i, k) in &presses {
                    if released_later(i, k) {
                        return Some(Dec::Hold);
                    }
                }
            }
            Var::ReleaseKeys => {
                for &(i, k) in &presses {
                    if k == 1 {
                        return Some(Dec::Tap);
                    }
                    if released_later(i, k) {
                        return Some(Dec::Hold);
                    }
                }
            }
            Var::ExceptKeys => match presses.first() {
                Some(&(_, k)) => {
                    if k == 1 {
                        return Some(Dec::Tap);
                    }
                }
                None => skip_timeout = true,
            },
        }
        if let Some(e) = self.q.iter().find(|e| !e.0 && e.1 == 0) {
            if w.timeout > w.delay.saturating_sub(e.2) {
                Some(Dec::Tap)
            } else {
                Some(Dec::Timeout)
            }
        } else if w.timeout == 0 && !skip_timeout {
            Some(Dec::Timeout)
        } else {
            None
        }
    }
    pub fn tick(&mut self) -> TickOut {
        for e in self.q.iter_mut() {
            e.2 = e.2.saturating_add(1);
        }
        self.lpt_t = self.lpt_t.saturating_sub(1);
        if let Some(mut w) = self.w.take() {
            w.timeout = w.timeout.saturating_sub(1);
            match self.decide(&w) {
                None => self.w = Some(w),
                Some(d) => {
                    let kcode = match d {
                        Dec::Tap => self.codes[0],
                        Dec::Hold => self.codes[1],
                        Dec::Timeout => {
                            if self.p.var.has_timeout_action() {
                                self.codes[2]
                            } else {
                                self.codes[1]
                            }
                        }
                    };
                    if d != Dec::Tap && self.lpt_coord == 0 {
                        self.lpt_t = 0;
                    }
                    if d != Dec::Timeout {
                        self.pause = self.p.red;
                    }
                    self.decisions.push(d);
                    self.st.push((0, kcode));
                }
            }
        } else if self.pause > 0 {
            self.pause -= 1;
        } else if let Some((press, k, since)) = self.q.pop_front() {
            if press {
                if self.lpt_coord != k {
                    self.lpt_t = 0;
                }
                if k == 0 {
                    if self.p.tapwin == 0 || self.lpt_coord != 0 || self.lpt_t == 0 {
                        self.w = Some(if self.p.concurrent { W { timeout: self.p.h.saturating_sub(since), delay: 0 } } else { W { timeout: self.p.h, delay: since } });
                        self.lpt_t = self.p.tapwin;
                    } else {
                        self.lpt_t = 0;
                        self.quick_repress += 1;
                        self.decisions.push(Dec::Tap);
                        self.st.push((0, self.codes[0]));
                    }
                } else {
                    self.st.push((k, if k == 1 { self.codes[3] } else { self.codes[4] }));
                }
                self.lpt_coord = k;
            } else {
                self.st.retain(|s| s.0 != k);
            }
        }
        let cur: Vec<u16> = self.st.iter().map(|s| s.1).collect();
        self.diff.step(&cur)
    }
}

// ------------------------------------------------------------------ stream invariants I1 / I2

/// one input event as injected: (ticks completed at injection, press?, source key index)
type In = (u64, bool, usize);
/// one OS output: (tick, down?, code)
type OutEv = (u64, bool, u16);

#[derive(Default, Debug)]
pub struct OrderStats {
    pub th_presses: u64,
    pub buffered_presses: u64,
    pub max_buffered: u64,
    pub witnesses: [u64; 3],
}

/// `class_of(code)` = (source key index, witness kind 0 tap / 1 hold / 2 timeout / 3 plain)
pub fn order_check(ins: &[In], outs: &[OutEv], is_th: &dyn Fn(usize) -> bool, class_of: &dyn Fn(u16) -> Option<(usize, usize)>, all_up: bool, nkeys: usize) -> Result<OrderStats, (String, String)> {
    let mut st = OrderStats::default();
    let in_p: Vec<(u64, usize)> = ins.iter().filter(|e| e.1).map(|e| (e.0, e.2)).collect();
    let mut out_p: Vec<(u64, usize, usize)> = vec![];
    for o in outs.iter().filter(|o| o.1) {
        match class_of(o.2) {
            Some((src, kind)) => out_p.push((o.0, src, kind)),
            None => return Err(("C05:unexpected-output-key".into(), format!("key {} pressed at tick {} belongs to no configured action", code_name(o.2), o.0))),
        }
    }
    // counts per source key
    for k in 0..nkeys {
        let ni = in_p.iter().filter(|e| e.1 == k).count();
        let no = out_p.iter().filter(|e| e.1 == k).count();
        if ni != no {
            let (sig, what) = if is_th(k) {
                if no > ni {
                    ("C05:I1:more-than-one-activation", format!("{ni} presses of tap-hold key #{k} produced {no} tap/hold/timeout activations"))
                } else {
                    ("C05:I1:no-activation", format!("{ni} presses of tap-hold key #{k} produced only {no} tap/hold/timeout activations"))
                }
            } else if no > ni {
                ("C05:I2:key-duplicated", format!("{ni} presses of plain key #{k} produced {no} output presses"))
            } else {
                ("C05:I2:key-lost", format!("{ni} presses of plain key #{k} produced only {no} output presses"))
            };
            return Err((sig.into(), what));
        }
    }
    for (i, (ip, op)) in in_p.iter().zip(out_p.iter()).enumerate() {
        if ip.1 != op.1 {
            let sig = if is_th(ip.1) && !is_th(op.1) { "C05:I2:key-output-before-decision" } else { "C05:I2:reordered" };
            return Err((sig.into(), format!("input press #{i} is key #{} (injected after tick {}), but output press #{i} (tick {}) comes from key #{}", ip.1, ip.0, op.0, op.1)));
        }
        if op.0 <= ip.0 {
            return Err(("C05:output-before-input".into(), format!("press #{i} injected after tick {} but output in tick {}", ip.0, op.0)));
        }
        if is_th(ip.1) {
            st.th_presses += 1;
            if op.2 < 3 {
                st.witnesses[op.2] += 1;
            }
            let buffered = in_p.iter().filter(|e| e.0 >= ip.0 && e.0 < op.0).count().saturating_sub(1) as u64;
            let buffered = buffered.min(in_p.len() as u64);
            st.buffered_presses += buffered;
            st.max_buffered = st.max_buffered.max(buffered);
        }
    }
    if !all_up {
        return Err(("C05:stuck-at-end".into(), "a key is still down after every physical key was released and the drain".into()));
    }
    Ok(st)
}

// ------------------------------------------------------------------ single tap-hold key: lockstep with the model

/// validation aid: with KV_C05_NO_MODEL=1 the model comparison is switched off, so that a seeded break shows
/// whether the model-free stream invariants fire on their own (never set in registered runs)
fn no_model() -> bool {
    static V: std::sync::OnceLock<bool> = std::sync::OnceLock::new();
    *V.get_or_init(|| std::env::var("KV_C05_NO_MODEL").map(|v| v == "1").unwrap_or(false))
}


/// development aid: with KV_C05_ONLY_MULTI=1 parts 1 and 2 are skipped (the floors then fail, so such a
/// run is never "held"; never set in registered runs)
fn only_multi() -> bool {
    static V: std::sync::OnceLock<bool> = std::sync::OnceLock::new();
    *V.get_or_init(|| std::env::var("KV_C05_ONLY_MULTI").map(|v| v == "1").unwrap_or(false))
}

struct Lock {
    p: P,
    sim: Sim,
    model: Model,
    codes: [u16; 3],
    ins: Vec<In>,
    outs: Vec<OutEv>,
    mtrace: Vec<(u64, TickOut)>,
    ktrace: Vec<(u64, TickOut)>,
    t0: u64,
    max_waiting: u64,
}

#[derive(Clone, Debug)]
struct Bad {
    sig: String,
    what: String,
}

impl Lock {
    fn new(p: P, text: &str) -> Result<Lock, String> {
        let sim = Sim::new(text)?;
        Ok(Lock { p, sim, model: Model::new(p), codes: [kc("a"), kc("b"), kc("c")], ins: vec![], outs: vec![], mtrace: vec![], ktrace: vec![], t0: 0, max_waiting: 0 })
    }
    fn tick(&mut self) -> Option<Bad> {
        self.sim.tick();
        let k = kanata_outs(self.sim.last());
        let m = self.model.tick();
        let t = self.sim.now - self.t0;
        for o in &k {
            self.outs.push((t, o.0, o.1));
        }
        if self.sim.last().iter().any(|o| o.repress) {
            return Some(Bad { sig: "C05:repress".into(), what: format!("tick {t}: a key that is already down was pressed again: [{}]", fmt_tick(&k)) });
        }
        if !k.is_empty() {
            self.ktrace.push((t, k.clone()));
        }
        if !m.is_empty() {
            self.mtrace.push((t, m.clone()));
        }
        if k != m && !no_model() {
            return Some(Bad { sig: format!("C05:I3:{}", classify(&k, &m)), what: format!("tick {t}: kanata wrote [{}], the tap-hold model expects [{}]", fmt_tick(&k), fmt_tick(&m)) });
        }
        None
    }
    fn run(&mut self, h: &[Ev]) -> Option<Bad> {
        self.ins.clear();
        self.outs.clear();
        self.mtrace.clear();
        self.ktrace.clear();
        self.t0 = self.sim.now;
        self.model.decisions.clear();
        for e in h {
            match e {
                Ev::T(n) => {
                    for _ in 0..*n {
                        if let Some(b) = self.tick() {
                            return Some(b);
                        }
                    }
                    let l = self.sim.k.layout.b();
                    self.max_waiting = self.max_waiting.max(l.waiting.is_some() as u64 + l.extra_waiting.len() as u64);
                }
                Ev::P(code) | Ev::R(code) => {
                    let press = matches!(e, Ev::P(_));
                    let Some(k) = self.codes.iter().position(|x| x == code) else { continue };
                    if press {
                        self.sim.press(*code);
                    } else {
                        self.sim.release(*code);
                    }
                    self.model.push(press, k);
                    self.ins.push((self.sim.now - self.t0, press, k));
                    if !self.sim.last().is_empty() {
                        return Some(Bad { sig: "C05:output-at-event".into(), what: "output while an input event was handled".into() });
                    }
                }
                _ => {}
            }
        }
        // drain until the model is quiescent (bounded)
        let bound = 3 * (self.p.h as u64 + self.p.tapwin as u64 + self.p.red as u64) + 60 + 8 * h.len() as u64;
        let mut n = 0;
        while n < bound {
            if let Some(b) = self.tick() {
                return Some(b);
            }
            n += 1;
            if self.model.quiescent() && n >= 2 {
                break;
            }
        }
        if !self.model.quiescent() {
            return Some(Bad { sig: "C05:harness:model-not-quiescent".into(), what: "reference model did not settle within the drain bound".into() });
        }
        let l = self.sim.k.layout.b();
        if !l.states.is_empty() || l.waiting.is_some() || !l.queue.is_empty() || !l.extra_waiting.is_empty() {
            return Some(Bad { sig: "C05:not-settled".into(), what: format!("after the drain: states={:?} waiting={} queue={}", l.states, l.waiting.is_some(), l.queue.len()) });
        }
        None
    }
    fn invariants(&self) -> Result<OrderStats, (String, String)> {
        let x = self.model.codes;
        order_check(
            &self.ins,
            &self.outs,
            &|k| k == 0,
            &|c| {
                if c == x[0] {
                    Some((0, 0))
                } else if c == x[1] {
                    Some((0, 1))
                } else if c == x[2] {
                    Some((0, 2))
                } else if c == x[3] {
                    Some((1, 3))
                } else if c == x[4] {
                    Some((2, 3))
                } else {
                    None
                }
            },
            self.sim.os.all_up(),
            3,
        )
    }
    fn reset_trace(&mut self) {
        clear_trace(&mut self.sim);
    }
}

/// Statement, "no other input" clause, read directly off the stream: the history starts with the
/// tap-hold press, the next event is its release `g` ticks later. Returns (expected witness kind,
/// expected tick) or None where the convention leaves the tick open.
fn solo_expectation(p: &P, g: u64) -> Option<(usize, u64)> {
    let h = p.h as u64;
    let timeout_kind = if p.var.has_timeout_action() { 2 } else { 1 };
    // the press is processed in tick 1, so a release injected in the same millisecond is seen in
    // tick 2 like one injected a millisecond later
    let ge = g.max(1);
    if !p.concurrent {
        if ge < h {
            Some((0, ge + 1))
        } else if g == 0 {
            None
        } else if p.var == Var::ExceptKeys {
            // documented: nothing is output until the release
            Some((timeout_kind, g + 1))
        } else {
            Some((timeout_kind, h + 1))
        }
    } else {
        // concurrent-tap-hold: the tick spent in the queue is deducted (appendix A); the tick right
        // at the shifted boundary is left to the model comparison
        if ge + 1 < h {
            Some((0, ge + 1))
        } else if g >= h && g >= 1 {
            if p.var == Var::ExceptKeys {
                Some((timeout_kind, g + 1))
            } else {
                Some((timeout_kind, h.max(2)))
            }
        } else {
            None
        }
    }
}

fn boundary_class(d: i64) -> &'static str {
    match d {
        i64::MIN..=-2 => "lt-1",
        -1 => "-1",
        0 => "0",
        1 => "+1",
        _ => "gt+1",
    }
}

struct FreshVerdict {
    bad: Option<Bad>,
    observed: Vec<String>,
    expected: Vec<String>,
}

fn fresh_judge(p: P, text: &str, h: &[Ev]) -> Option<FreshVerdict> {
    let mut l = Lock::new(p, text).ok()?;
    let mut bad = l.run(h);
    if bad.is_none() {
        if let Err((sig, what)) = l.invariants() {
            bad = Some(Bad { sig, what });
        }
    }
    if bad.is_none() {
        if let Some(Err(b)) = solo_check(&l, h) {
            bad = Some(b);
        }
    }
    if bad.is_some() {
        for _ in 0..(p.h as u64 + p.red as u64 + 4) {
            l.sim.tick();
            let k = kanata_outs(l.sim.last());
            if !k.is_empty() {
                l.ktrace.push((l.sim.now - l.t0, k));
            }
        }
    }
    Some(FreshVerdict { bad, observed: fmt_trace(&l.ktrace), expected: fmt_trace(&l.mtrace) })
}

/// direct check of the "no other input" clause for histories that begin `d:a t:g u:a`
/// None = not a 'no other input' schedule; Some(Ok((outcome, release distance from H))) = checked
fn solo_check(l: &Lock, h: &[Ev]) -> Option<Result<(usize, i64), Bad>> {
    let a = l.codes[0];
    let (g, rest) = match h {
        [Ev::P(x), Ev::T(g), Ev::R(y), rest @ ..] if *x == a && *y == a => (*g as u64, rest),
        [Ev::P(x), Ev::R(y), rest @ ..] if *x == a && *y == a => (0, rest),
        _ => return None,
    };
    // injection time of the next event, if any
    let third: Option<u64> = match rest {
        [] => None,
        [Ev::T(n), _, ..] => Some(g + *n as u64),
        _ => Some(g),
    };
    let (kind, tick) = solo_expectation(&l.p, g)?;
    if third.map(|t| t < tick).unwrap_or(false) {
        // another event is seen before the decision: not a 'no other input' schedule
        return None;
    }
    let x = l.model.codes;
    let first = l.outs.iter().find(|o| o.1);
    match first {
        Some(&(t, _, c)) if c == x[kind] && t == tick => Some(Ok((kind, g as i64 - l.p.h as i64))),
        Some(&(t, _, c)) => {
            let got = if c == x[0] { "tap" } else if c == x[1] { "hold" } else if c == x[2] { "timeout" } else { "other" };
            let want = ["tap", "hold", "timeout"][kind];
            let sig = if c != x[kind] { format!("C05:solo:{want}-expected-{got}-observed") } else { format!("C05:solo:{want}-at-wrong-tick") };
            Some(Err(Bad { sig, what: format!("tap-hold key pressed alone and released {g} ticks later (H={}): expected the {want} action in tick {tick}, observed {} in tick {t}", l.p.h, code_name(c)) }))
        }
        None => Some(Err(Bad { sig: "C05:solo:no-output".into(), what: format!("tap-hold key pressed alone and released {g} ticks later: no output at all") })),
    }
}

fn report(out: &mut CaseOut, p: P, text: &str, h: &[Ev], first: &Bad, part: &str) {
    let class = |s: &str| s.to_string();
    let fv = fresh_judge(p, text, h);
    let fresh_bad = fv.as_ref().and_then(|f| f.bad.clone());
    match fresh_bad {
        Some(b0) => {
            let sig0 = class(&b0.sig);
            let hm = minimise_hist(h, &mut |c| fresh_judge(p, text, c).and_then(|f| f.bad).map(|b| b.sig == sig0).unwrap_or(false));
            let f = fresh_judge(p, text, &hm);
            let (b, obs, exp) = match f {
                Some(FreshVerdict { bad: Some(b), observed, expected }) => (b, observed, expected),
                _ => (b0, vec![], vec![]),
            };
            out.violate(
                b.sig.clone(),
                b.what.clone(),
                json!({"part": part, "config": text, "params": p.label(), "history": render_hist(&hm), "original_history": render_hist(h), "observed": obs, "expected": exp, "reproduced_on_fresh_instance": true}),
            );
        }
        None => {
            out.violate(
                format!("C05:carry-over:{}", first.sig.trim_start_matches("C05:")),
                format!("{} (only after earlier histories on the same instance)", first.what),
                json!({"part": part, "config": text, "params": p.label(), "history": render_hist(h), "observed": first.what, "expected": "agreement with the model", "reproduced_on_fresh_instance": false}),
            );
        }
    }
}

// ------------------------------------------------------------------ two tap-hold keys interleaved (I1 / I2 only)

#[derive(Clone, Debug)]
struct P2 {
    v: [Var; 2],
    h: [u16; 2],
    tapwin: [u16; 2],
    concurrent: bool,
    red: u16,
}

impl P2 {
    fn render(&self) -> String {
        let mut opts = vec![];
        if self.concurrent {
            opts.push("concurrent-tap-hold yes".to_string());
        }
        if self.red != 5 {
            opts.push(format!("rapid-event-delay {}", self.red));
        }
        let mut s = String::new();
        if !opts.is_empty() {
            s.push_str(&format!("(defcfg {})\n", opts.join(" ")));
        }
        s.push_str("(defsrc a b c d)\n");
        s.push_str(&format!(
            "(deflayer l {} b c {})\n",
            self.v[0].render(self.tapwin[0], self.h[0], ["x", "y", "z"], "b"),
            self.v[1].render(self.tapwin[1], self.h[1], ["1", "2", "3"], "c")
        ));
        s
    }
}

fn gen_p2(rng: &mut Rng) -> P2 {
    let hs = [1u16, 2, 3, 7, 20, 40];
    let h0 = *rng.pick(&hs);
    let h1 = *rng.pick(&hs);
    P2 {
        v: [*rng.pick(&VARS), *rng.pick(&VARS)],
        h: [h0, h1],
        tapwin: [if rng.coin() { 0 } else { h0 + 1 + rng.below(6) as u16 }, if rng.coin() { 0 } else { h1 + 1 + rng.below(6) as u16 }],
        concurrent: rng.coin(),
        red: *rng.pick(&[5u16, 5, 0, 1]),
    }
}

struct Run2 {
    realized: Vec<Ev>,
    ins: Vec<In>,
    outs: Vec<OutEv>,
    repress: Option<u64>,
    max_queue: u64,
    max_waiting: u64,
    unsettled: Option<String>,
    all_up: bool,
}

/// run a planned history on a fresh kanata; if the layout queue is about to exceed 27 entries the
/// driver lets time pass first (the realized history is what the witness records)
fn run2(text: &str, planned: &[Ev], codes: &[u16; 4], drain: u64) -> Option<Run2> {
    let mut sim = Sim::new(text).ok()?;
    let mut r = Run2 { realized: vec![], ins: vec![], outs: vec![], repress: None, max_queue: 0, max_waiting: 0, unsettled: None, all_up: true };
    let step = |sim: &mut Sim, r: &mut Run2| {
        sim.tick();
        for o in sim.last() {
            if o.repress && r.repress.is_none() {
                r.repress = Some(sim.now);
            }
        }
        for o in kanata_outs(sim.last()) {
            r.outs.push((sim.now, o.0, o.1));
        }
        let l = sim.k.layout.b();
        r.max_waiting = r.max_waiting.max(l.waiting.is_some() as u64 + l.extra_waiting.len() as u64);
    };
    for e in planned {
        match e {
            Ev::T(n) => {
                for _ in 0..*n {
                    step(&mut sim, &mut r);
                }
                r.realized.push(e.clone());
            }
            Ev::P(code) | Ev::R(code) => {
                let mut extra = 0u32;
                while sim.k.layout.b().queue.len() >= 27 && extra < 2000 {
                    step(&mut sim, &mut r);
                    extra += 1;
                }
                if extra > 0 {
                    r.realized.push(Ev::T(extra));
                }
                let Some(k) = codes.iter().position(|x| x == code) else { continue };
                let press = matches!(e, Ev::P(_));
                if press {
                    sim.press(*code);
                } else {
                    sim.release(*code);
                }
                r.ins.push((sim.now, press, k));
                r.realized.push(e.clone());
                r.max_queue = r.max_queue.max(sim.k.layout.b().queue.len() as u64);
            }
            _ => {}
        }
    }
    let mut quiet = 0;
    let mut n = 0;
    while n < drain {
        let before = r.outs.len();
        step(&mut sim, &mut r);
        n += 1;
        let l = sim.k.layout.b();
        let settled = l.states.is_empty() && l.waiting.is_none() && l.queue.is_empty() && l.extra_waiting.is_empty();
        if r.outs.len() == before && settled {
            quiet += 1;
            if quiet >= 10 {
                break;
            }
        } else {
            quiet = 0;
        }
    }
    let l = sim.k.layout.b();
    if !(l.states.is_empty() && l.waiting.is_none() && l.queue.is_empty() && l.extra_waiting.is_empty()) {
        r.unsettled = Some(format!("states={:?} waiting={} queue={} extra_waiting={}", l.states, l.waiting.is_some(), l.queue.len(), l.extra_waiting.len()));
    }
    r.all_up = sim.os.all_up();
    Some(r)
}

fn judge2(text: &str, planned: &[Ev], codes: &[u16; 4], drain: u64) -> Option<(Run2, Result<OrderStats, (String, String)>)> {
    let r = run2(text, planned, codes, drain)?;
    let w0 = [kc("x"), kc("y"), kc("z")];
    let w1 = [kc("1"), kc("2"), kc("3")];
    let (b, c) = (kc("b"), kc("c"));
    let verdict = if let Some(t) = r.repress {
        Err(("C05:repress".to_string(), format!("tick {t}: a key that is already down was pressed again")))
    } else if let Some(u) = &r.unsettled {
        Err(("C05:not-settled".to_string(), format!("after the drain: {u}")))
    } else {
        order_check(
            &r.ins,
            &r.outs,
            &|k| k == 0 || k == 3,
            &|code| {
                if let Some(i) = w0.iter().position(|x| *x == code) {
                    Some((0, i))
                } else if let Some(i) = w1.iter().position(|x| *x == code) {
                    Some((3, i))
                } else if code == b {
                    Some((1, 3))
                } else if code == c {
                    Some((2, 3))
                } else {
                    None
                }
            },
            r.all_up,
            4,
        )
    };
    Some((r, verdict))
}

fn gen_hist2(rng: &mut Rng, p: &P2, codes: &[u16; 4], n_events: usize) -> Vec<Ev> {
    let mut gaps: Vec<u32> = vec![0, 0, 1, 1, 2, 5];
    for h in p.h {
        let h = h as u32;
        gaps.extend_from_slice(&[h.saturating_sub(1), h, h + 1]);
    }
    for w in p.tapwin {
        if w > 0 {
            gaps.push(w as u32);
        }
    }
    crate::gen::hist::consistent(rng, codes, n_events, &gaps, false)
}

// ------------------------------------------------------------------ the check

fn param_sets(tier: Tier) -> Vec<P> {
    let hs: &[u16] = tier.sel(&[3, 40], &[1, 3, 40]);
    let mut v = vec![];
    for var in VARS {
        for &h in hs {
            for tapwin in [0, h + 1] {
                for concurrent in [false, true] {
                    for red in [5u16, 0] {
                        v.push(P { var, h, tapwin, concurrent, red });
                    }
                }
            }
        }
    }
    v
}
fn exh_n(tier: Tier, h: u16) -> usize {
    match tier {
        Tier::Quick => {
            if h <= 3 {
                5
            } else {
                4
            }
        }
        Tier::Thorough => {
            if h <= 3 {
                6
            } else {
                5
            }
        }
    }
}
fn gapvals(h: u16) -> Vec<u32> {
    let h = h as u32;
    let mut g = vec![0, 1, h.saturating_sub(1), h, h + 1];
    g.sort();
    g.dedup();
    g
}
fn n_exh_cases(tier: Tier) -> u64 {
    param_sets(tier).len() as u64 * 9
}
fn n_random(tier: Tier) -> u64 {
    tier.sel(3_000, 60_000)
}

impl C05Check {
    fn run_exhaustive(&self, ctx: &Ctx, idx: u64, out: &mut CaseOut) {
        let ps = param_sets(ctx.tier);
        let p = ps[(idx / 9) as usize];
        let p0 = ((idx % 9) / 3) as usize;
        let p1 = (idx % 3) as usize;
        let text = p.render();
        let n = exh_n(ctx.tier, p.h);
        let gv = gapvals(p.h);
        let mut lock = match Lock::new(p, &text) {
            Ok(l) => l,
            Err(e) => {
                out.violate("C05:config-rejected", format!("tap-hold configuration rejected: {}", e.lines().next().unwrap_or("")), json!({"config": text, "error": e, "history": "", "observed": "parse error", "expected": "accepted"}));
                return;
            }
        };
        let codes = lock.codes;
        let tail = p.h as u32 + 2;
        let mut bads: Vec<(Vec<Ev>, Bad)> = vec![];
        let vname = p.var.name();
        for len in 2..=n {
            for_each_schedule(3, gv.len(), len, &[p0, p1], |keys, gaps| {
                let h = schedule_to_hist(&codes, keys, gaps, &gv, tail, 1);
                let mut bad = lock.run(&h);
                let mut stats = None;
                if bad.is_none() {
                    match lock.invariants() {
                        Ok(s) => stats = Some(s),
                        Err((sig, what)) => bad = Some(Bad { sig, what }),
                    }
                }
                if bad.is_none() {
                    match solo_check(&lock, &h) {
                        Some(Err(b)) => bad = Some(b),
                        Some(Ok((kind, d))) => {
                            // evidence: solo decisions by variant x outcome x distance from the boundary
                            out.inc("solo_statement_checks");
                            out.inc(&format!("solo:{vname}:{}:{}", ["tap", "hold", "timeout-action"][kind], boundary_class(d)));
                        }
                        None => {}
                    }
                }
                out.inc("schedules");
                out.inc("schedules_exhaustive");
                out.count("decisions_compared_with_model", lock.model.decisions.len() as u64);
                if let Some(s) = stats {
                    out.count("tap_hold_presses", s.th_presses);
                    out.count("buffered_key_presses", s.buffered_presses);
                    out.max("buffered_behind_one_decision", s.max_buffered);
                    out.count("outcome_tap", s.witnesses[0]);
                    out.count("outcome_hold", s.witnesses[1]);
                    out.count("outcome_timeout_action", s.witnesses[2]);
                }
                if gaps.iter().all(|g| *g == 0) {
                    let ks: String = keys.iter().map(|k| char::from(b'a' + *k as u8)).collect();
                    out.tag(format!("E:{}:{ks}", p.label()));
                }
                if let Some(b) = bad {
                    bads.push((h, b));
                    out.max("waiting_depth", lock.max_waiting);
                    out.count("quick_repress_taps", lock.model.quick_repress);
                    match Lock::new(p, &text) {
                        Ok(l) => lock = l,
                        Err(_) => return false,
                    }
                    return bads.len() < 3;
                }
                lock.reset_trace();
                true
            });
            if bads.len() >= 3 {
                break;
            }
        }
        out.max("waiting_depth", lock.max_waiting);
        out.count("quick_repress_taps", lock.model.quick_repress);
        for (h, b) in bads.iter().take(3) {
            report(out, p, &text, h, b, "exhaustive");
        }
        out.inc("param_sets_x_prefix");
        if p0 == 0 && p1 == 1 && (idx / 9) % 16 == 3 {
            out.sample = Some(json!({"part": "exhaustive", "config": text, "params": p.label(), "first_two_keys": [p0, p1], "max_events": n, "gaps": gv,
                "example_history": render_hist(&schedule_to_hist(&codes, &[0, 1, 1, 0], &[0, 1, 2, 1], &gv, tail, 1))}));
        }
    }

    fn random_case(&self, ctx: &Ctx, idx: u64) -> (P2, Vec<Vec<Ev>>) {
        let mut rng = Rng::for_case(ctx.seed, "C05", "random", idx);
        let p = gen_p2(&mut rng);
        let codes = [kc("a"), kc("b"), kc("c"), kc("d")];
        let mut hs = vec![];
        for _ in 0..4 {
            let n = 12 + rng.usize(50);
            hs.push(gen_hist2(&mut rng, &p, &codes, n));
        }
        (p, hs)
    }

    fn run_random(&self, ctx: &Ctx, idx: u64, out: &mut CaseOut) {
        let (p, hs) = self.random_case(ctx, idx);
        let text = p.render();
        let codes = [kc("a"), kc("b"), kc("c"), kc("d")];
        let drain = 4 * (p.h[0] as u64 + p.h[1] as u64 + p.tapwin[0] as u64 + p.tapwin[1] as u64) + 40 * (p.red as u64 + 2) + 300;
        if ctx.verbose {
            eprintln!("config:\n{text}");
        }
        for (hi, h) in hs.iter().enumerate() {
            let Some((r, verdict)) = judge2(&text, h, &codes, drain) else {
                out.violate("C05:config-rejected", "two-tap-hold configuration rejected", json!({"config": text, "history": "", "observed": "parse error", "expected": "accepted"}));
                return;
            };
            if ctx.verbose {
                eprintln!("history {hi}: {}", render_hist(&r.realized));
            }
            out.inc("schedules");
            out.inc("schedules_random_two_tap_holds");
            out.max("queue_len", r.max_queue);
            out.max("waiting_depth", r.max_waiting);
            match verdict {
                Ok(s) => {
                    out.count("tap_hold_presses", s.th_presses);
                    out.count("tap_hold_presses_random", s.th_presses);
                    out.count("buffered_key_presses", s.buffered_presses);
                    out.max("buffered_behind_one_decision", s.max_buffered);
                    out.count("outcome_tap", s.witnesses[0]);
                    out.count("outcome_hold", s.witnesses[1]);
                    out.count("outcome_timeout_action", s.witnesses[2]);
                }
                Err((sig, what)) => {
                    let sig0 = sig.clone();
                    let hm = minimise_hist(&r.realized, &mut |c| judge2(&text, c, &codes, drain).map(|(_, v)| matches!(v, Err((s, _)) if s == sig0)).unwrap_or(false));
                    let (r2, v2) = match judge2(&text, &hm, &codes, drain) {
                        Some(x) => x,
                        None => return,
                    };
                    let what2 = match v2 {
                        Err((_, w)) => w,
                        Ok(_) => what,
                    };
                    let obs: Vec<String> = r2.outs.iter().map(|o| format!("@{}: {}{}", o.0, if o.1 { "↓" } else { "↑" }, code_name(o.2))).collect();
                    out.violate(sig, what2, json!({"part": "random-two-tap-holds", "config": text, "history": render_hist(&r2.realized), "original_history": render_hist(&r.realized), "observed": obs,
                        "expected": "one tap/hold/timeout witness press per tap-hold press; output presses in input-press order; everything released at the end"}));
                    break;
                }
            }
        }
        out.tag(format!("R:{}:{}:{}:{}:{}:{}", p.v[0].name(), p.v[1].name(), p.h[0], p.h[1], p.concurrent as u8, p.red));
        if idx % 900 == 17 {
            out.sample = Some(json!({"part": "random-two-tap-holds", "config": text, "history": render_hist(&hs[0])}));
        }
    }
}

impl Check for C05Check {
    fn id(&self) -> &'static str {
        "C05"
    }
    fn n_cases(&self, ctx: &Ctx) -> u64 {
        n_exh_cases(ctx.tier) + n_random(ctx.tier) + multi::n_sys_cases(ctx.tier) + multi::n_rand_cases(ctx.tier)
    }
    fn describe(&self, ctx: &Ctx, idx: u64) -> Value {
        if idx < n_exh_cases(ctx.tier) {
            let p = param_sets(ctx.tier)[(idx / 9) as usize];
            json!({"part": "exhaustive", "config": p.render(), "first_two_keys": [(idx % 9) / 3, idx % 3], "max_events": exh_n(ctx.tier, p.h), "gaps": gapvals(p.h)})
        } else if idx < n_exh_cases(ctx.tier) + n_random(ctx.tier) {
            let (p, hs) = self.random_case(ctx, idx);
            json!({"part": "random-two-tap-holds", "config": p.render(), "histories": hs.iter().map(|h| render_hist(h)).collect::<Vec<_>>()})
        } else {
            let j = idx - n_exh_cases(ctx.tier) - n_random(ctx.tier);
            if j < multi::n_sys_cases(ctx.tier) {
                multi::describe_sys(ctx.tier, j)
            } else {
                multi::describe_rand(ctx, j - multi::n_sys_cases(ctx.tier))
            }
        }
    }
    fn run_case(&self, ctx: &Ctx, idx: u64) -> CaseOut {
        let mut out = CaseOut::new();
        if only_multi() && idx < n_exh_cases(ctx.tier) + n_random(ctx.tier) {
            return out;
        }
        if idx < n_exh_cases(ctx.tier) {
            self.run_exhaustive(ctx, idx, &mut out);
        } else if idx < n_exh_cases(ctx.tier) + n_random(ctx.tier) {
            self.run_random(ctx, idx, &mut out);
        } else {
            let j = idx - n_exh_cases(ctx.tier) - n_random(ctx.tier);
            if j < multi::n_sys_cases(ctx.tier) {
                multi::run_sys(ctx, j, &mut out);
            } else {
                multi::run_rand(ctx, j - multi::n_sys_cases(ctx.tier), &mut out);
            }
        }
        out
    }
    fn rule(&self) -> String {
        "Part 1 (exhaustive, seed-independent): config (defsrc a b c), a = one tap-hold key whose tap / hold / timeout actions are the distinct witness keys x / y / z, b (the listed key of the -keys variants) and c plain. All 7 variants x H in {3,40} (thorough also 1) x tap-repress window {0, H+1} x concurrent-tap-hold {no,yes} x rapid-event-delay {5,0}; for each, EVERY physically consistent schedule of 2..=N events over {a,b,c} (N = 5 for H<=3, 4 for H=40 in quick; 6 / 5 in thorough) with every inter-event gap in {0,1,H-1,H,H+1}, keys still down released H+2 ticks after the last event. Judged: I3 per-tick equality with the tap-hold reference model; I1/I2 on the OS stream (the sequence of output presses, mapped back to their source key, equals the sequence of input presses: exactly one witness per tap-hold press, nothing overtakes a pending decision, buffered keys replayed in order, none lost/duplicated; no re-press; everything up and the layout empty after the drain); and for schedules that start 'press a, g ticks, release a' the statement's no-other-input clause directly (tap iff g < H at tick g+1, else hold/timeout action at tick H+1; appendix A deductions for concurrent-tap-hold). Part 2 (random): two tap-hold keys (a -> x/y/z, d -> 1/2/3) of random variants, H in {1,2,3,7,20,40}, random windows, with b and c plain; 4 random consistent histories of 12-61 events with gaps around both timeouts; judged by I1/I2 only (no model). \
Parts 3 and 4: SEVERAL tap-holds undecided at the same time (kanata's extra waiting list), three families: 'chord-group' = keys a s d of one defchords group whose single-key entries are tap-holds (distinct witnesses each) plus a subset of the chords (a s) (s d) (a d) (a s d) on plain keys, a stand-alone tap-hold key f, plain b c - keys pressed within the chord timeout that form no chord decompose into their tap-holds, which are then pending together; 'switch' = key a with a switch of 2-3 fallthrough cases that are tap-holds (two tap-holds directly in one multi are refused by the parser), key d a tap-hold or a 2-case switch, plain b c; 'chords-v2' = defchordsv2 chord (a s) whose action is a tap-hold (all-released / first-release), stand-alone tap-hold keys d f, plain b c, concurrent-tap-hold yes. Part 3 (systematic, seed-independent): per family, chord timeout 4, a short (8; 16 for chords-v2) and a long (30) hold timeout on the two tap-holds that can be pending together, in both assignments, variant pairs (plain, plain) and every other variant (quick: press, release, release-keys) paired with a plain tap-hold in both positions, concurrent-tap-hold no/yes: EVERY consistent schedule of 2..=5 events (thorough: 6 for the plain pair) over the two tap-hold units and plain key b with every gap in {0,1,6,9,31}, keys still down released 33 ticks after the last event. Part 4 (random): random family member (variants, H in {2,3,7,12,20,40}, tap-repress windows, chord timeout {4,9,25}, rapid-event-delay {5,0,1}, concurrent on/off, defined chords), 4 random consistent histories of 8-47 events over all 4-6 keys with gaps around the timeouts. Judged for parts 3/4, model-free, by counting on the OS stream: every physical key has lanes (what one press can turn into: the witnesses of its tap-hold, the key itself, a chord it takes part in); per lane as many outputs as presses (I1: exactly one tap/hold/timeout witness per tap-hold press and per switch case; nothing lost or duplicated); when a plain key is output, every press of every other key made before it has produced its output (I2: nothing overtakes a pending decision, also not the decision of the SECOND pending tap-hold; buffered keys in order); a witness is not output before plain keys pressed before it; no output before its press, no re-press, everything up and the layout empty after the drain; a tap-hold without tap-repress window and listed keys is resolved to tap only after its release was injected; statement timing with margin: plain tap-hold, concurrent-tap-hold off, released >= 4 ticks (+ chord timeout for chord-group keys) before H => tap; press not queued behind anything and held >= H+4 => not tap. distinct_nontrivial = (parameter set, key sequence) for parts 1 and 3, parameter tuple for parts 2 and 4.".into()
    }
    fn assumptions(&self) -> Vec<String> {
        vec![
            "boundary conventions of appendix A: an event injected after p ticks is first seen by tick p+1; hold/timeout fires in tick p+H+1 (p+H with concurrent-tap-hold, which deducts the time spent queued); tap iff the release arrives < H ticks after the press (H-1 with concurrent-tap-hold); the model encodes these and detects changes of them".into(),
            "tap-hold-except-keys: per the guide nothing is output until the release or another key press, so the hold action chosen by timeout appears at the release".into(),
            "fewer than 32 events pending: exhaustive schedules have at most 6 events; the random drivers let time pass whenever the layout queue reaches 27 (parts 3/4: 24) entries (the realized history is recorded)".into(),
            "tap, hold and timeout actions are plain distinct keys; nested tap-holds are not generated; in parts 2-4 no reference model is used, only the model-free clauses listed in the rule".into(),
            "one kanata instance runs all schedules of an exhaustive / systematic case, each followed by a drain until quiescent; any disagreement is re-judged on a fresh instance and minimised".into(),
            "parts 3/4, several tap-holds pending together: the guide does not say in which order two concurrently pending tap-holds are resolved, nor where a chord's output goes relative to them, so the relative order of two witnesses, and the position of chord outputs (defchords chords on plain keys, keys a/s of a v2 chord typed outside the chord), is not judged - only their counts; the order clauses are judged for the plain keys b, c against everything, and for witnesses against plain keys pressed before them".into(),
            "parts 3/4, timing: with concurrent-tap-hold off the guide starts the timeout of a following tap-hold only when the previous one expires, and tap-holds started from a switch case or a decomposed chord do not deduct queueing time the same way; therefore 'held past H => not tap' is judged only for presses injected while nothing was queued, pending or paused, 'released before H => tap' only for the plain variant with concurrent-tap-hold off and with a margin of 4 ticks (+ the chord timeout for chord-group keys, + 3 for switch cases), and exact decision ticks are not judged in these families".into(),
            "chords-v2 family: a chord's action is started by the chord machinery, not from the input queue, so a witness of the chord's tap-hold may legitimately appear before plain keys that are still queued behind another pending decision (not judged); a new activation of the same chord while the previous one's witness key is still down (its release is queued behind a pending decision) would press the same key twice, which no OS stream can show - the driver therefore presses the chord's keys again only after the previous activation has been output and released (time is let pass, the realized history is recorded); a chord pressed less than chords-v2-min-idle (5 ms) after another key is documented to be typed as plain keys and is accounted as such".into(),
            "known finding C05:tap-before-release:other-chord-group-key-released-while-press-queued (findings/C05-chord-group-stale-release.md): the signature is used only when the release of another key of the chord group was injected between the press and its early tap; every other early tap keeps the live signature C05:tap-before-release".into(),
        ]
    }
    fn floors(&self, ctx: &Ctx) -> Vec<(&'static str, u64)> {
        vec![
            ("schedules_exhaustive", ctx.tier.sel(1_000_000, 20_000_000)),
            ("schedules_random_two_tap_holds", ctx.tier.sel(8_000, 150_000)),
            ("tap_hold_presses", 1_000_000),
            ("tap_hold_presses_random", 20_000),
            ("outcome_tap", 100_000),
            ("outcome_hold", 100_000),
            ("outcome_timeout_action", 10_000),
            ("buffered_key_presses", 100_000),
            ("quick_repress_taps", 1_000),
            ("solo_statement_checks", 200),
            ("max_buffered_behind_one_decision", 3),
            // parts 3 / 4: several tap-holds undecided at the same time
            ("schedules_multi_pending_systematic", ctx.tier.sel(3_000_000, 30_000_000)),
            ("schedules_multi_pending_random", ctx.tier.sel(5_000, 100_000)),
            ("max_waiting_depth", 3),
            ("schedules_with_two_tap_holds_pending_chord-group", 100_000),
            ("schedules_with_two_tap_holds_pending_switch", 500_000),
            ("schedules_with_two_tap_holds_pending_chords-v2", 50_000),
            ("schedules_with_three_tap_holds_pending", ctx.tier.sel(200, 4_000)),
            // the primary waiting slot is empty, another tap-hold is still undecided and input is queued, for longer than the input pause
            ("schedules_input_queued_behind_extra_only_chord-group", 10_000),
            ("schedules_input_queued_behind_extra_only_switch", 100_000),
            ("schedules_input_queued_behind_extra_only_chords-v2", 10_000),
            ("tap_hold_presses_multi_pending_families", 5_000_000),
            ("multi_outcome_tap", 1_000_000),
            ("multi_outcome_hold", 1_000_000),
            ("multi_outcome_timeout_action", ctx.tier.sel(2_000, 40_000)),
            ("multi_chord_outputs", ctx.tier.sel(200, 4_000)),
            ("multi_order_checks", 10_000_000),
            ("multi_tap_after_release_checks", 1_000_000),
            ("multi_timing_tap_checks", 300_000),
            ("multi_timing_hold_checks", 1_000_000),
        ]
    }
    fn exhaustive(&self, _ctx: &Ctx) -> bool {
        true
    }
    fn watchdog_s(&self, _ctx: &Ctx) -> u64 {
        180
    }
}
