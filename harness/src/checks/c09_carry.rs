//! C09, held-over family (defchords groups): a key of the group is still held from an earlier chord
//! (or from its own single-key chord) while the next chord of the group is typed, and is released
//! somewhere among the new presses.
//!
//! Phase 1: one or two "carried" group keys go down together and are given 3T+10 ticks, so their press
//! has been consumed (as their chord, or key by key) before anything else happens. Phase 2: one to three
//! other group keys are pressed in every order; the releases of the carried keys are placed at every
//! position among those presses; consecutive events are {0, 1, 3, T-1, T+1} ticks apart. Phase 2 is typed
//! either at an idle kanata (events are looked at as they come in; gap 0 = release and next press in the
//! same tick) or behind the undecided blocker tap-hold of the delayed-start family (every event of
//! phase 2 is already queued when the first one is looked at), the blocker being decided by its release
//! or by its hold timeout. Then the new keys are released in every order.
//!
//! "A chord triggers [...] by a key release": the release of a group key ends the collection, whether or
//! not the released key is one of the keys collected so far. The keys collected before it are one unit
//! (their chord, or its greedy decomposition); a group key pressed after it starts a new chord of its
//! own and is never part of what was decided before it.

use super::*;

pub(super) const C_CHUNK: u64 = 256;

const N_MODE: u64 = 3;
const N_OFF: u64 = 2;
const N_HOLD: u64 = 2;
const N_RELGAP: u64 = 2;
const N_GAP: u64 = 5;

fn gap_set(t: u32) -> [u32; 5] {
    [0, 1, 3, t - 1, t + 1]
}

/// idle time after the carried keys went down
fn phase1_wait(tb: &Table) -> u64 {
    3 * tb.t as u64 + 10
}

#[derive(Clone, Debug)]
pub(super) struct CScen {
    /// group keys pressed (together) in phase 1 and held into phase 2
    pub carried: Vec<usize>,
    /// phase 2 in input order: (key, press, gap before the event); presses of new keys and releases of
    /// carried keys; the first gap is 0
    pub seq: Vec<(usize, bool, u32)>,
    /// releases of the new keys: (key, gap); the first gap counts from the blocker's decision (or from
    /// the last event of phase 2 + `after` without a blocker)
    pub releases: Vec<(usize, u32)>,
    /// 0 = no blocker, 1 = blocker decided by its release, 2 = by its hold timeout
    pub mode: u8,
    pub lead: u32,
    pub after: u32,
}

/// number of ways to place `c` (1 or 2) labelled releases into a sequence of `e` events
fn placements(e: usize, c: usize) -> u64 {
    if c == 1 {
        e as u64
    } else {
        (e * (e - 1)) as u64
    }
}

pub(super) fn space(n: usize, c: usize) -> u64 {
    let e = n + c;
    N_MODE * N_OFF * factorial(n) * placements(e, c) * N_GAP.pow(e as u32 - 1) * factorial(n) * N_HOLD * N_RELGAP
}

pub(super) fn make(carried: &[usize], new_keys: &[usize], tb: &Table, mut idx: u64) -> CScen {
    let n = new_keys.len();
    let c = carried.len();
    let e = n + c;
    let t = tb.t;
    let gaps = gap_set(t);
    // the blocker's dimensions and the placement vary fastest so that a strided sample sees all of them
    let mode = (idx % N_MODE) as u8;
    idx /= N_MODE;
    let off = (idx % N_OFF) as usize;
    idx /= N_OFF;
    let mut pl = idx % placements(e, c);
    idx /= placements(e, c);
    let pp = idx % factorial(n);
    idx /= factorial(n);
    let mut g = vec![0u32];
    for _ in 1..e {
        g.push(gaps[(idx % N_GAP) as usize]);
        idx /= N_GAP;
    }
    let rp = idx % factorial(n);
    idx /= factorial(n);
    let hold = [1u32, t + 3][(idx % N_HOLD) as usize];
    idx /= N_HOLD;
    let relgap = [0u32, 9][(idx % N_RELGAP) as usize];
    // slots of the carried keys' releases
    let mut slot_of: Vec<Option<usize>> = vec![None; e];
    if c == 1 {
        slot_of[pl as usize] = Some(carried[0]);
    } else {
        let s0 = (pl % e as u64) as usize;
        pl /= e as u64;
        let mut s1 = pl as usize; // 0..e-1, skipping s0
        if s1 >= s0 {
            s1 += 1;
        }
        slot_of[s0] = Some(carried[0]);
        slot_of[s1.min(e - 1)] = Some(carried[1]);
    }
    let porder = nth_perm(new_keys, pp);
    let rorder = nth_perm(new_keys, rp);
    let mut seq = vec![];
    let mut pi = 0;
    for (i, s) in slot_of.iter().enumerate() {
        match s {
            Some(k) => seq.push((*k, false, g[i])),
            None => {
                seq.push((porder[pi.min(n - 1)], true, g[i]));
                pi += 1;
            }
        }
    }
    CScen {
        carried: carried.to_vec(),
        seq,
        releases: rorder.iter().enumerate().map(|(i, k)| (*k, if i == 0 { hold } else { relgap })).collect(),
        mode,
        lead: [1u32, 6][off],
        after: [1u32, 9][off],
    }
}

impl CScen {
    /// tick of the blocker's decision (0 without a blocker) and the input events in input order; tick 0 is
    /// the press of the carried keys
    pub fn timeline(&self, tb: &Table) -> (u64, Vec<InEv>) {
        let th = delayed::blocker_hold(tb) as u64;
        let w = phase1_wait(tb);
        let dur: u64 = self.seq.iter().map(|e| e.2 as u64).sum();
        let mut ev: Vec<InEv> = self.carried.iter().map(|k| InEv { at: 0, key: *k, press: true, overflow: false }).collect();
        let start = match self.mode {
            0 => w,
            1 => w + self.lead as u64,
            _ => w + th - self.after as u64 - dur,
        };
        if self.mode != 0 {
            ev.push(InEv { at: w, key: BLOCKER_KEY, press: true, overflow: false });
        }
        let mut t = start;
        for (k, p, g) in &self.seq {
            t += *g as u64;
            ev.push(InEv { at: t, key: *k, press: *p, overflow: false });
        }
        t += self.after as u64;
        let decision = if self.mode == 0 { 0 } else { t };
        if self.mode == 1 {
            ev.push(InEv { at: t, key: BLOCKER_KEY, press: false, overflow: false });
        }
        for (k, g) in &self.releases {
            t += *g as u64;
            ev.push(InEv { at: t, key: *k, press: false, overflow: false });
        }
        if self.mode == 2 {
            ev.push(InEv { at: t + 5, key: BLOCKER_KEY, press: false, overflow: false });
        }
        (decision, ev)
    }

    pub fn hist(&self, tb: &Table) -> Vec<Ev> {
        let mut h = vec![];
        let mut now = 0u64;
        for e in self.timeline(tb).1 {
            if e.at > now {
                h.push(Ev::T((e.at - now) as u32));
                now = e.at;
            }
            let code = osc(key_name(e.key));
            h.push(if e.press { Ev::P(code) } else { Ev::R(code) });
        }
        h
    }
}

pub(super) fn run(sim: &mut Sim, c: &Conf, s: &CScen, nm: &Names) -> (Vec<Obs>, Vec<String>, bool) {
    sim.trace.clear();
    sim.last_step_start = 0;
    let base = sim.now;
    let mut scan = VScan::default();
    for e in s.timeline(c.tb()).1 {
        while sim.now - base < e.at {
            sim.tick();
            scan.after_tick(sim, base, nm);
        }
        let code = osc(key_name(e.key));
        if e.press {
            sim.press(code);
        } else {
            sim.release(code);
        }
    }
    let min = (c.tb().t + R_DELAY + 8) as u64;
    let settled = settle_scan(sim, min, 600, &mut scan, base, nm);
    let (o, r) = collect(sim, base, nm);
    (scan.merge_into(o), r, settled)
}

/// what the scenario exercises (for the floors)
#[derive(Default)]
pub(super) struct Shape {
    /// a carried key is released after at least one new press and before another one, less than T after
    /// the first press of phase 2
    pub release_mid_collection: bool,
    /// ... and the keys pressed before that release are at least two and no chord of their own
    pub undefined_set_cut: bool,
    /// ... and the press after the release was already queued when the release was looked at
    pub later_press_already_queued: bool,
}

pub(super) const SUFFIX: &str = "group-key-held-over";

/// Judged:
///  * accounting (every press accounted for exactly once, order of individually delivered keys, nothing
///    stuck), the window clause and released-early, as in the delayed-start family;
///  * the units fired are those of the reference grouping (`v1_expected_cut`): phase 1 on its own, phase 2
///    with a cut at every release of a carried key, wherever the tick is determined;
///  * a chord fired by the carried keys alone (undecomposed) is released when the last of them is.
pub(super) fn judge(c: &Conf, s: &CScen, obs: &[Obs], settled: bool, shape: &mut Shape) -> Verdict {
    let tb = c.tb();
    let t = tb.t as u64;
    let mut v = Verdict { sig: None, class: "carry-release-apart", units: vec![], expected: String::new() };
    let (decision, ins) = s.timeline(tb);
    // phase 2 presses and cuts
    let w = phase1_wait(tb);
    let mut pr2: Vec<(usize, u64)> = vec![];
    let mut cut: Vec<bool> = vec![];
    let mut pending_cut = false;
    let mut first_mid: Option<usize> = None; // number of presses before the first release that has presses on both sides
    let mut last_rel_at = 0u64;
    let mut mid_rel_at = 0u64;
    for e in ins.iter() {
        if e.at < w || e.key >= 5 {
            continue;
        }
        if e.press {
            if pending_cut && !pr2.is_empty() && first_mid.is_none() {
                first_mid = Some(pr2.len());
                mid_rel_at = last_rel_at;
                // already queued: behind the blocker, or in the same tick as the release before it
                shape.later_press_already_queued = s.mode != 0 || last_rel_at == e.at;
            }
            pr2.push((e.key, e.at));
            cut.push(pending_cut);
            pending_cut = false;
        } else if s.carried.contains(&e.key) && !pr2.is_empty() {
            pending_cut = true;
            last_rel_at = e.at;
        } else if !s.carried.contains(&e.key) {
            break; // the new keys' own releases come after every press
        }
    }
    if let Some(nb) = first_mid {
        let rel = mid_rel_at;
        if rel - pr2[0].1 < t {
            shape.release_mid_collection = true;
            v.class = "carry-release-mid-collection";
            let m = pr2[..nb].iter().fold(0u8, |a, (k, _)| a | 1 << k);
            if nb >= 2 && !tb.chords.contains(&m) && pr2[nb - 1].1 - pr2[0].1 < t {
                shape.undefined_set_cut = true;
            }
        }
    }
    if !shape.undefined_set_cut {
        shape.later_press_already_queued = false;
    }
    if !settled {
        v.sig = Some((format!("C09:v1:stuck:{SUFFIX}"), "kanata did not return to idle with every key up".into()));
        return v;
    }
    let acct = match accounting(c, &ins, obs) {
        Ok(a) => a,
        Err((k, what)) => {
            v.sig = Some((format!("C09:v1:{k}:{SUFFIX}"), what));
            return v;
        }
    };
    v.units = acct.units.clone();
    let n_press = ins.iter().filter(|e| e.press).count() as u64;
    for (ci, _, sp, _) in &acct.fired {
        let lag = R_DELAY as u64 + 2 * (n_press + 1);
        if *sp >= t + lag {
            v.sig = Some((format!("C09:v1:fired-outside-window:{SUFFIX}"), format!("{} fired although its participants were pressed {} ticks apart (timeout {})", unit_name(10 + *ci as u8, tb), sp, tb.t)));
            return v;
        }
    }
    let mut rel_at = [0u64; 5];
    for e in ins.iter().filter(|e| !e.press && e.key < 5) {
        rel_at[e.key] = e.at;
    }
    for o in obs {
        if !o.down && o.id < 5 && o.at <= rel_at[o.id as usize] {
            v.sig = Some((format!("C09:v1:released-early:{SUFFIX}"), format!("{} released before its physical release", KEYS[o.id as usize])));
            return v;
        }
    }
    // reference grouping
    let pr1: Vec<(usize, u64)> = s.carried.iter().map(|k| (*k, 0)).collect();
    let mut ambiguous = false;
    let exp1 = v1_expected(c, &pr1, &mut ambiguous, false);
    let exp2 = v1_expected_cut(c, &pr2, &mut ambiguous, s.mode != 0, &cut);
    let mut exp = exp1.clone();
    if s.mode != 0 {
        exp.push(BLOCKER_KEY as u8);
    }
    exp.extend(exp2);
    v.expected = exp.iter().map(|u| unit_name(*u, tb)).collect::<Vec<_>>().join(", ");
    if ambiguous {
        v.class = "carry-group-boundary-undetermined";
    } else if exp != acct.units {
        v.sig = Some((
            format!("C09:v1:decomposition:{SUFFIX}"),
            format!("expected [{}], observed [{}]", v.expected, acct.units.iter().map(|u| unit_name(*u, tb)).collect::<Vec<_>>().join(", ")),
        ));
        return v;
    }
    // the carried keys' own chord: released when all of them are (the releases wait behind the blocker
    // until it is decided and are then replayed one per tick)
    if exp1.len() == 1 && exp1[0] >= 10 {
        if let Some((ci, at, _, arr)) = acct.fired.iter().find(|f| f.1 < w) {
            let t_rule = arr.iter().map(|(k, _)| rel_at[*k]).max().unwrap_or(0);
            if let Some(up) = obs.iter().find(|o| !o.down && o.id == 10 + *ci as u8 && o.at >= *at).map(|o| o.at) {
                let eff = t_rule.max(decision);
                // behind a blocker every queued event is replayed with the input pause in between
                let n_queued = if s.mode == 0 { 0 } else { s.seq.len() as u64 + 1 };
                let slack = (R_DELAY as u64) * 2 + 2 * (n_press + 1) + 2 + (R_DELAY as u64 + 3) * n_queued;
                if up <= t_rule {
                    v.sig = Some((format!("C09:v1:chord-released-early:{SUFFIX}"), format!("{} released in tick {up}, before all of its keys were released (tick {t_rule})", unit_name(10 + *ci as u8, tb))));
                    return v;
                }
                if up > eff + slack {
                    v.sig = Some((format!("C09:v1:chord-released-late:{SUFFIX}"), format!("{} released in tick {up}, more than {slack} ticks after all of its keys were released and the queue was free (tick {eff})", unit_name(10 + *ci as u8, tb))));
                    return v;
                }
            }
        }
    }
    v
}

/// the work list of a v1 blocker configuration: (carried keys, new keys, number of scenarios, total space)
pub(super) fn work(ctx: &Ctx, c: &Conf) -> Vec<(Vec<usize>, Vec<usize>, u64, u64)> {
    let tb = c.tb();
    let mut v = vec![];
    if c.v2 || !c.blocker || tb.nkeys < 3 {
        return v;
    }
    for cm in 1u8..(1 << tb.nkeys) {
        let nc = cm.count_ones() as usize;
        if nc > 2 {
            continue;
        }
        for nm in 1u8..(1 << tb.nkeys) {
            let nn = nm.count_ones() as usize;
            if nm & cm != 0 || nn > 3 {
                continue;
            }
            // sampled with a fixed stride (seed-independent); the more new keys, the more scenarios
            let cap: u64 = [ctx.tier.sel(150, 1_500), ctx.tier.sel(600, 8_000), ctx.tier.sel(2_400, 40_000)][nn - 1];
            let sp = space(nn, nc);
            v.push((mask_keys(cm), mask_keys(nm), sp.min(cap), sp));
        }
    }
    v
}

pub(super) fn run_chunk(ctx: &Ctx, ci: usize, a: u64, b: u64, out: &mut CaseOut) {
    let confs = configs();
    let c = &confs[ci];
    let tb = c.tb();
    let nm = names();
    let cfg = c.text();
    let mut sim = match new_sim(c) {
        Ok(s) => s,
        Err(e) => {
            out.inconclusive = Some(format!("config rejected: {}", e.lines().next().unwrap_or("")));
            return;
        }
    };
    let mut reported: std::collections::BTreeSet<String> = Default::default();
    let mut off = 0u64;
    for (carried, new_keys, cnt, sp) in work(ctx, c) {
        let lo = a.max(off);
        let hi = b.min(off + cnt);
        for i in lo..hi {
            let local = i - off;
            let sidx = if cnt < sp { (local.wrapping_mul(STRIDE)) % sp } else { local };
            let s = make(&carried, &new_keys, tb, sidx);
            let (obs, raw, settled) = run(&mut sim, c, &s, &nm);
            let mut shape = Shape::default();
            let mut v = judge(c, &s, &obs, settled, &mut shape);
            let mut raw = raw;
            if v.sig.is_some() {
                // confirm on a fresh instance
                if let Ok(mut fresh) = new_sim(c) {
                    let (o2, r2, st2) = run(&mut fresh, c, &s, &nm);
                    let mut sh2 = Shape::default();
                    let v2 = judge(c, &s, &o2, st2, &mut sh2);
                    if v2.sig.is_none() {
                        out.inc("mismatch_not_reproduced_on_fresh_instance");
                        out.inconclusive = Some("a mismatch on a re-used instance did not reproduce on a fresh one".into());
                    }
                    v = v2;
                    raw = r2;
                }
                if let Ok(s2) = new_sim(c) {
                    sim = s2;
                }
            }
            out.inc("v1_carry_scenarios");
            out.inc(&format!("v1_class_{}", v.class));
            out.inc(["v1_carry_typed_at_idle_kanata", "v1_carry_queued_behind_blocker_decided_by_release", "v1_carry_queued_behind_blocker_decided_by_hold_timeout"][s.mode.min(2) as usize]);
            if s.carried.len() == 2 {
                out.inc("v1_carry_two_keys_held_over");
            }
            if shape.release_mid_collection {
                out.inc("v1_carry_held_over_key_released_mid_collection");
            }
            if shape.undefined_set_cut {
                out.inc("v1_carry_undefined_key_set_cut_by_held_over_release");
                if shape.later_press_already_queued {
                    out.inc("v1_carry_undefined_key_set_cut_with_later_press_already_queued");
                }
            }
            if !v.class.ends_with("undetermined") && v.sig.is_none() {
                out.inc("v1_carry_outcomes_compared_with_reference");
            }
            if v.units.iter().any(|u| *u >= 10) {
                out.inc("v1_carry_scenarios_with_chord_fired");
            }
            let cm = s.carried.iter().fold(0u8, |a, k| a | 1 << k);
            let nmask = new_keys.iter().fold(0u8, |a, k| a | 1 << k);
            out.tag(format!("{}|carry{:05b}|{:05b}|{}|m{}|{}", c.label(), cm, nmask, v.class, s.mode, v.units.iter().map(|u| u.to_string()).collect::<Vec<_>>().join(",")));
            if let Some((sig, what)) = &v.sig {
                let h = render_hist(&s.hist(tb));
                if reported.insert(sig.clone()) {
                    out.violate(
                        sig.clone(),
                        format!("{} [{}] {h}: {what}", c.label(), v.class),
                        json!({"config": cfg, "history": h, "scenario_class": v.class, "observed": raw, "expected": v.expected, "note": "ticks are relative to the press of the held-over key(s); z is the blocker key whose undecided tap-hold keeps every later event in the queue"}),
                    );
                }
                if ctx.verbose {
                    eprintln!("{sig}: {h} -> {:?}", raw);
                }
            }
            if out.sample.is_none() && a == 0 && shape.undefined_set_cut {
                out.sample = Some(json!({"config": cfg, "history": render_hist(&s.hist(tb)), "class": v.class, "observed": raw}));
            }
        }
        off += cnt;
        if off >= b {
            break;
        }
    }
}
