//! C18 part J: hold-for-duration PENDING FOR SEVERAL virtual keys at the same time.
//!
//! Every virtual key held by `hold-for-duration` is released when ITS OWN time has passed, whatever
//! else is pending: two or three virtual keys (one output key each) whose hold times run out in the
//! SAME tick, one tick apart, or further apart. The deadlines are made to coincide in both ways: one
//! physical key arming several keys in one `multi` with EQUAL durations, and different physical keys
//! pressed N ticks apart whose durations differ by N (every press-to-press distance from 2 to the
//! largest difference + 2 is enumerated, so that every pair and the triple meet exactly, one tick off
//! in both directions, and not at all); a `multi` with durations one tick apart; re-arming one of the
//! keys while the others run (which moves its deadline onto / off the others'). Compared tick by tick
//! with the model of part B generalised to a set of virtual keys (the release of a virtual key is
//! queued in the tick in which its time has run out; releases that become due in the same tick are
//! queued in that tick, in any order, one queued event is consumed per tick), and in plain form: at
//! the end every virtual key is up again.

use crate::core::sim::{code_name, osc, render_hist, Ev, OutKind, Sim};
use crate::core::{CaseOut, Ctx};
use serde_json::json;
use std::collections::{BTreeSet, VecDeque};

use super::STRIDE;

#[derive(Clone, Debug)]
pub struct ConfJ {
    pub name: &'static str,
    /// number of virtual keys
    pub n: usize,
    /// per physical key: (virtual key, duration) pairs it arms (more than one: a `multi`); empty =
    /// plain key (always last)
    pub keys: Vec<Vec<(usize, u64)>>,
    /// outputs of the virtual keys
    pub outs: [&'static str; 3],
}

const JKEYS: [&str; 7] = ["h", "j", "k", "l", "n", "m", "z"];
const J_VNAMES: [&str; 3] = ["v1", "v2", "v3"];
const PLAIN_IX: u8 = 3;
const CAP_J3: u64 = 60_000;

impl ConfJ {
    pub fn text(&self) -> String {
        let entry = |e: &(usize, u64)| format!("(hold-for-duration {} {})", e.1, J_VNAMES[e.0]);
        let mut acts = vec![];
        for (k, es) in self.keys.iter().enumerate() {
            acts.push(match es.len() {
                0 => self.key_name(k).to_string(),
                1 => entry(&es[0]),
                _ => format!("(multi {})", es.iter().map(entry).collect::<Vec<_>>().join(" ")),
            });
        }
        let vk = (0..self.n).map(|i| format!("{} {}", J_VNAMES[i], self.outs[i])).collect::<Vec<_>>().join(" ");
        format!(
            "(defcfg process-unmapped-keys yes)\n(defsrc {})\n(defvirtualkeys {vk})\n(deflayer base {})\n",
            (0..self.keys.len()).map(|k| self.key_name(k)).collect::<Vec<_>>().join(" "),
            acts.join(" ")
        )
    }
    fn key_name(&self, k: usize) -> &'static str {
        if k + 1 == self.keys.len() {
            JKEYS[6]
        } else {
            JKEYS[k]
        }
    }
    pub fn label(&self) -> String {
        format!("hold-multi|{}", self.name)
    }
    fn durations(&self) -> Vec<u64> {
        let mut d: Vec<u64> = self.keys.iter().flatten().map(|e| e.1).collect();
        d.sort();
        d.dedup();
        d
    }
    /// press-to-press distances: every distance from 2 to the largest difference of two durations
    /// + 2 (so that every pair of deadlines meets exactly, and misses by one tick on both sides),
    /// and one longer than every duration
    fn gaps(&self) -> Vec<u64> {
        let d = self.durations();
        let (lo, hi) = (d.first().copied().unwrap_or(10), d.last().copied().unwrap_or(10));
        let mut g: Vec<u64> = (2..=(hi - lo + 2).max(4)).collect();
        g.push(hi + 6);
        g
    }
    fn nkeys(&self) -> u64 {
        self.keys.len() as u64
    }
    fn arming(&self) -> Vec<u8> {
        (0..self.keys.len()).filter(|k| !self.keys[*k].is_empty()).map(|k| k as u8).collect()
    }
    fn per(&self) -> u64 {
        self.gaps().len() as u64 * self.nkeys()
    }
    fn space(&self, n: u32) -> u64 {
        self.arming().len() as u64 * (0..=n).map(|k| self.per().pow(k)).sum::<u64>()
    }
    fn depth3_space(&self) -> u64 {
        self.arming().len() as u64 * self.per().pow(3)
    }
    pub fn total(&self, ctx: &Ctx) -> u64 {
        self.space(2) + ctx.tier.sel(0, self.depth3_space().min(CAP_J3))
    }
    /// a first tap of an arming key, then up to nmax further taps of any key, each a press-to-press
    /// distance after the previous one; taps are held 1 tick
    fn scen(&self, mut idx: u64, nmax: u32) -> Option<Vec<(u64, JE)>> {
        let gaps = self.gaps();
        let per = self.per();
        let arming = self.arming();
        let nf = arming.len() as u64;
        let first = arming[(idx % nf) as usize];
        idx /= nf;
        let mut n = 0;
        loop {
            let b = per.pow(n);
            if idx < b {
                break;
            }
            idx -= b;
            n += 1;
            if n > nmax {
                return None;
            }
        }
        let mut evs = vec![(0, JE::P(first)), (1, JE::R(first))];
        let mut last_press = 0u64;
        for _ in 0..n {
            let gi = idx % gaps.len() as u64;
            idx /= gaps.len() as u64;
            let k = (idx % self.nkeys()) as u8;
            idx /= self.nkeys();
            let t = last_press + gaps[gi as usize];
            evs.push((t, JE::P(k)));
            evs.push((t + 1, JE::R(k)));
            last_press = t;
        }
        Some(evs)
    }
    pub fn pick(&self, i: u64) -> Option<Vec<(u64, JE)>> {
        let s2 = self.space(2);
        if i < s2 {
            return self.scen(i, 2);
        }
        let s3 = self.depth3_space();
        let j = i - s2;
        let sidx = if s3 > CAP_J3 { j.wrapping_mul(STRIDE) % s3 } else { j };
        let per = self.per();
        let nf = self.arming().len() as u64;
        let idx = (1 + per + per * per + sidx / nf) * nf + sidx % nf;
        self.scen(idx, 3)
    }
    fn horizon(&self, evs: &[(u64, JE)]) -> u64 {
        evs.last().map(|e| e.0).unwrap_or(0) + self.durations().last().copied().unwrap_or(0) + 4 * self.n as u64 + 20
    }
}

pub fn configs_j() -> Vec<ConfJ> {
    let c = |name: &'static str, n: usize, keys: &[&[(usize, u64)]], outs: [&'static str; 3]| ConfJ { name, n, keys: keys.iter().map(|k| k.to_vec()).collect(), outs };
    vec![
        // two keys: equal durations in one multi; each key alone with durations 8 apart; one tick apart
        c("two-keys", 2, &[&[(0, 15), (1, 15)], &[(0, 20)], &[(1, 12)], &[(0, 15), (1, 16)], &[]], ["1", "2", "3"]),
        // the same with modifier outputs and the multi written in the other order
        c("two-modifier-keys", 2, &[&[(1, 14), (0, 14)], &[(0, 18)], &[(1, 13)], &[(1, 9)], &[]], ["lsft", "lctl", "3"]),
        // three keys: all in one multi with equal durations; each alone with durations 4 and 3 apart;
        // a multi of two with equal durations next to a single one
        c("three-keys", 3, &[&[(0, 12), (1, 12), (2, 12)], &[(0, 16)], &[(1, 12)], &[(2, 9)], &[(1, 10), (2, 10)], &[]], ["1", "2", "3"]),
        // three keys in one multi with durations one tick apart each, and the single keys that bring
        // them together again
        c("three-keys-a-tick-apart", 3, &[&[(0, 10), (1, 11), (2, 12)], &[(0, 11)], &[(2, 10)], &[(1, 14)], &[]], ["1", "2", "3"]),
    ]
}

#[derive(Clone, Copy, PartialEq, Eq, Debug)]
pub enum JE {
    P(u8),
    R(u8),
    VP(u8),
    VR(u8),
}

#[derive(Clone, Debug, PartialEq, Eq)]
struct JOut {
    at: u64,
    down: bool,
    /// 0..2 = output of virtual key i, 3 = plain key, 9 = anything else
    key: u8,
}

#[derive(Clone, Debug)]
struct Group {
    at: u64,
    keys: Vec<usize>,
}

#[derive(Default, Debug, Clone)]
struct JStats {
    episodes: u64,
    rearms: u64,
    /// ticks in which the time of exactly 2 / 3 virtual keys ran out
    due_together_2: u64,
    due_together_3: u64,
    /// ... all armed by one press (one multi) / by presses of different keys
    due_together_armed_by_one_multi: u64,
    due_together_armed_by_different_presses: u64,
    /// ... after one of them had been re-armed while pending
    due_together_after_rearm: u64,
    /// ... while another virtual key stayed pending
    due_together_with_other_key_left_pending: u64,
    /// the times of two virtual keys ran out in consecutive ticks
    due_one_tick_apart: u64,
    /// two or more virtual keys pending at once, none of them due together (control)
    several_pending_never_together: u64,
    max_pending: u64,
    groups: Vec<Group>,
}

/// Model (part B's, for a set of virtual keys). One queued event is consumed per tick. The press of
/// an arming key, when processed, arms its entries in the order written: a virtual key that is not
/// pending gets its press queued and its time set, one that is pending only gets its time set anew.
/// At the end of every tick the time of every pending virtual key goes down by one; those that reach
/// 0 get their release queued - several in the same tick in any order (`obs` is only consulted to
/// choose among these orders).
fn model(c: &ConfJ, evs: &[(u64, JE)], horizon: u64, obs: &[JOut]) -> (Vec<JOut>, JStats) {
    let n = c.n;
    let mut outs = vec![];
    let mut st = JStats::default();
    let mut q: VecDeque<JE> = VecDeque::new();
    let mut next = 0;
    let mut left: Vec<Option<u64>> = vec![None; n];
    let mut armed_by: Vec<usize> = vec![0; n];
    let mut rearmed: Vec<bool> = vec![false; n];
    let mut serial = 0usize;
    let mut last_group_at: Option<u64> = None;
    let mut several = false;
    let mut together_in_episode = false;
    for tick in 1..=horizon {
        while next < evs.len() && evs[next].0 < tick {
            q.push_back(evs[next].1);
            next += 1;
        }
        if let Some(e) = q.pop_front() {
            match e {
                JE::P(k) => {
                    let es = &c.keys[k as usize];
                    if es.is_empty() {
                        outs.push(JOut { at: tick, down: true, key: PLAIN_IX });
                    } else {
                        serial += 1;
                        for (v, d) in es {
                            if left[*v].is_some() {
                                st.rearms += 1;
                                rearmed[*v] = true;
                            } else {
                                q.push_back(JE::VP(*v as u8));
                                st.episodes += 1;
                                rearmed[*v] = false;
                            }
                            left[*v] = Some(*d);
                            armed_by[*v] = serial;
                        }
                    }
                }
                JE::R(k) => {
                    if c.keys[k as usize].is_empty() {
                        outs.push(JOut { at: tick, down: false, key: PLAIN_IX });
                    }
                }
                JE::VP(i) => outs.push(JOut { at: tick, down: true, key: i }),
                JE::VR(i) => outs.push(JOut { at: tick, down: false, key: i }),
            }
        }
        let pending = left.iter().filter(|l| l.is_some()).count() as u64;
        st.max_pending = st.max_pending.max(pending);
        if pending >= 2 {
            several = true;
        }
        let mut due: Vec<usize> = vec![];
        for v in 0..n {
            if let Some(x) = left[v] {
                if x <= 1 {
                    due.push(v);
                    left[v] = None;
                } else {
                    left[v] = Some(x - 1);
                }
            }
        }
        if !due.is_empty() {
            let first_up = |i: usize| obs.iter().find(|o| o.at > tick && !o.down && o.key == i as u8).map(|o| o.at).unwrap_or(u64::MAX);
            due.sort_by_key(|i| (first_up(*i), *i));
            for v in &due {
                q.push_back(JE::VR(*v as u8));
            }
            if last_group_at == Some(tick - 1) {
                st.due_one_tick_apart += 1;
            }
            last_group_at = Some(tick);
            if due.len() >= 2 {
                together_in_episode = true;
                if due.len() == 2 {
                    st.due_together_2 += 1;
                } else {
                    st.due_together_3 += 1;
                }
                let serials: BTreeSet<usize> = due.iter().map(|v| armed_by[*v]).collect();
                if serials.len() == 1 {
                    st.due_together_armed_by_one_multi += 1;
                } else {
                    st.due_together_armed_by_different_presses += 1;
                }
                if due.iter().any(|v| rearmed[*v]) {
                    st.due_together_after_rearm += 1;
                }
                if left.iter().any(|l| l.is_some()) {
                    st.due_together_with_other_key_left_pending += 1;
                }
            }
            st.groups.push(Group { at: tick, keys: due });
        }
        if left.iter().all(|l| l.is_none()) {
            if several && !together_in_episode {
                st.several_pending_never_together += 1;
            }
            several = false;
            together_in_episode = false;
        }
    }
    (outs, st)
}

fn names(c: &ConfJ) -> [String; 4] {
    [code_name(osc(c.outs[0])), code_name(osc(c.outs[1])), code_name(osc(c.outs[2])), code_name(osc(JKEYS[6]))]
}

fn render(v: &[JOut], nm: &[String; 4]) -> Vec<String> {
    v.iter().map(|o| format!("{}{}@{}", if o.down { "↓" } else { "↑" }, nm.get(o.key as usize).map(|s| s.as_str()).unwrap_or("<unexpected>"), o.at)).collect()
}

fn run(c: &ConfJ, evs: &[(u64, JE)], horizon: u64, nm: &[String; 4]) -> (Vec<JOut>, Vec<String>, Vec<Ev>, bool, Vec<usize>, usize) {
    let Ok(mut sim) = Sim::new(&c.text()) else {
        return (vec![], vec!["config rejected".into()], vec![], false, vec![], 0);
    };
    let mut hist = vec![];
    let mut next = 0;
    let mut gap = 0u32;
    for tick in 1..=horizon {
        while next < evs.len() && evs[next].0 < tick {
            if gap > 0 {
                hist.push(Ev::T(gap));
                gap = 0;
            }
            match evs[next].1 {
                JE::P(k) => {
                    let code = osc(c.key_name(k as usize));
                    sim.press(code);
                    hist.push(Ev::P(code));
                }
                JE::R(k) => {
                    let code = osc(c.key_name(k as usize));
                    sim.release(code);
                    hist.push(Ev::R(code));
                }
                _ => {}
            }
            next += 1;
        }
        sim.tick();
        gap += 1;
    }
    hist.push(Ev::T(gap));
    let mut outs = vec![];
    let mut raw = vec![];
    for o in &sim.trace {
        raw.push(o.short());
        if o.redundant {
            continue;
        }
        let down = o.kind == OutKind::Down;
        let key = if !matches!(o.kind, OutKind::Down | OutKind::Up) || o.repress { 9 } else { nm.iter().position(|n| *n == o.name).map(|p| p as u8).unwrap_or(9) };
        outs.push(JOut { at: o.at, down, key });
    }
    let stuck: Vec<usize> = (0..c.n).filter(|i| sim.os.keys_down.contains(&nm[*i])).collect();
    let still_pending = sim.k.vkeys_pending_release.len();
    let ok = sim.os.all_up() && sim.is_idle();
    (outs, raw, hist, ok, stuck, still_pending)
}

pub fn describe(ci: usize, a: u64, b: u64) -> serde_json::Value {
    match configs_j().get(ci) {
        Some(c) => json!({"config": c.text(), "scenarios": format!("several hold-for-duration keys pending scenarios #{a}..#{b}")}),
        None => json!({}),
    }
}

pub fn run_chunk(out: &mut CaseOut, ci: usize, a: u64, b: u64) {
    let confs = configs_j();
    let Some(c) = confs.get(ci) else { return };
    let nm = names(c);
    let mut reported: BTreeSet<String> = Default::default();
    for i in a..b {
        let Some(evs) = c.pick(i) else { continue };
        let horizon = c.horizon(&evs);
        let (obs, raw, hist, ok, stuck, still_pending) = run(c, &evs, horizon, &nm);
        let (exp, st) = model(c, &evs, horizon, &obs);
        out.inc("hold_multi_scenarios");
        out.inc(&format!("hold_multi_scenarios_{}_virtual_keys", c.n));
        out.count("hold_multi_episodes", st.episodes);
        out.count("hold_multi_rearms", st.rearms);
        out.count("hold_multi_ticks_with_2_keys_due_together", st.due_together_2);
        out.count("hold_multi_ticks_with_3_keys_due_together", st.due_together_3);
        out.count("hold_multi_due_together_armed_by_one_multi", st.due_together_armed_by_one_multi);
        out.count("hold_multi_due_together_armed_by_different_presses", st.due_together_armed_by_different_presses);
        out.count("hold_multi_due_together_after_rearm", st.due_together_after_rearm);
        out.count("hold_multi_due_together_with_other_key_left_pending", st.due_together_with_other_key_left_pending);
        out.count("hold_multi_due_one_tick_apart", st.due_one_tick_apart);
        out.count("hold_multi_several_pending_never_due_together", st.several_pending_never_together);
        out.max("hold_multi_max_keys_pending", st.max_pending);
        let together = st.due_together_2 + st.due_together_3;
        out.tag(format!("{}|{}|{}|{}|{}|{}|{}", c.label(), evs.len(), st.episodes, st.rearms, together, st.due_one_tick_apart, st.due_together_armed_by_different_presses));

        let is_v = |o: &JOut| (o.key as usize) < c.n;
        let cnt = |v: &[JOut], down: bool| v.iter().filter(|o| is_v(o) && o.down == down).count();
        let mut sig: Option<(String, String)> = None;
        if obs != exp || !ok || still_pending > 0 {
            let first_diff_at = obs.iter().zip(&exp).find(|(x, y)| x != y).map(|(x, y)| x.at.min(y.at)).or_else(|| {
                if obs.len() > exp.len() {
                    obs.get(exp.len()).map(|o| o.at)
                } else {
                    exp.get(obs.len()).map(|o| o.at)
                }
            });
            // structure: the last tick before the first difference in which releases became due
            let before: Vec<&Group> = st.groups.iter().filter(|g| first_diff_at.map(|t| g.at < t).unwrap_or(true)).collect();
            // a key that stayed down: the tick in which ITS time ran out decides
            let own: Option<usize> = stuck.first().and_then(|k| st.groups.iter().rposition(|g| g.keys.contains(k)));
            let structure = if let Some(gi) = own {
                let g = &st.groups[gi];
                if g.keys.len() >= 2 {
                    "times-ran-out-in-same-tick"
                } else if (gi > 0 && st.groups[gi - 1].at + 1 == g.at) || st.groups.get(gi + 1).map(|x| x.at == g.at + 1).unwrap_or(false) {
                    "times-ran-out-one-tick-apart"
                } else {
                    "times-ran-out-apart"
                }
            } else {
                match before.last() {
                Some(g) if g.keys.len() >= 2 => "times-ran-out-in-same-tick",
                Some(g) if before.len() >= 2 && before[before.len() - 2].at + 1 == g.at => "times-ran-out-one-tick-apart",
                Some(_) => "times-ran-out-apart",
                None => "before-any-time-ran-out",
                }
            };
            let class: String = if !stuck.is_empty() {
                "never-released".into()
            } else if obs.iter().any(|o| o.key == 9) {
                "unexpected-output".into()
            } else if cnt(&obs, true) > cnt(&exp, true) {
                "extra-press".into()
            } else if cnt(&obs, true) < cnt(&exp, true) {
                "missing-press".into()
            } else if cnt(&obs, false) != cnt(&exp, false) {
                "release-count".into()
            } else if obs != exp {
                let same_order = obs.len() == exp.len() && obs.iter().zip(&exp).all(|(x, y)| x.down == y.down && x.key == y.key);
                if same_order {
                    match obs.iter().zip(&exp).find(|(x, y)| x.at != y.at) {
                        Some((x, y)) if is_v(x) && !x.down => if x.at < y.at { "released-early" } else { "released-late" }.into(),
                        _ => "timing".into(),
                    }
                } else {
                    "order".into()
                }
            } else if still_pending > 0 {
                "entry-still-pending-at-end".into()
            } else {
                "not-idle-at-end".into()
            };
            let what = if !stuck.is_empty() {
                format!("virtual key(s) {} still down {} ticks after the last activation (longest duration {})", stuck.iter().map(|i| J_VNAMES[*i]).collect::<Vec<_>>().join(" "), horizon - evs.last().map(|e| e.0).unwrap_or(0), c.durations().last().copied().unwrap_or(0))
            } else {
                "the OS key stream differs from the model's".to_string()
            };
            sig = Some((format!("{class}:{structure}"), what));
        }
        if let Some((class, what)) = sig {
            let sig = format!("C18:hold-for-duration-multi:{class}");
            if reported.insert(sig.clone()) {
                out.violate(
                    sig,
                    format!("{}: {what}", c.label()),
                    json!({"config": c.text(), "history": render_hist(&hist), "observed": raw, "expected": render(&exp, &nm), "times_running_out_together_in_model": st.groups.iter().filter(|g| g.keys.len() >= 2).map(|g| format!("tick {}: {}", g.at, g.keys.iter().map(|i| J_VNAMES[*i]).collect::<Vec<_>>().join(" "))).collect::<Vec<_>>(), "note": "releases that become due in the same tick may be queued in any order (the expected stream uses the order of the observed one); one queued event is consumed per tick"}),
                );
            }
        }
        if out.sample.is_none() && a == 0 && together > 0 && st.due_together_armed_by_different_presses > 0 && evs.len() >= 4 {
            out.sample = Some(json!({"config": c.text(), "history": render_hist(&hist), "observed": raw, "expected": render(&exp, &nm)}));
        }
    }
}
