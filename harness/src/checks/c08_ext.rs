//! C08, two further scenario families (declared from c08.rs).
//!
//! * custom-meanwhile: a macro whose body contains custom items (unicode characters, mouse-button
//!   taps, virtual-key taps) runs while ANOTHER key that itself carries a custom action (a unicode
//!   key, a mouse-button key, an `on-press` / `on-release` virtual-key action, a key with a
//!   cancelling macro variant) is pressed at every tick offset of the body. Every custom item of
//!   the macro and every effect of the typed key must come out exactly once, in order.
//! * shared-key: a physical key that outputs the same key code as a modifier the macro holds
//!   (`lsft` next to `S-(…)`) is pressed before / during the macro and released at every tick
//!   offset of the body. The macro's other keys are projected as usual; for the shared key the
//!   requirement is stated on the OS key state: whenever the body presses a key while it holds the
//!   modifier, the modifier is down in the OS model at that moment.

use super::*;

fn pairs_json(v: &[(OutKind, String)]) -> Vec<String> {
    v.iter().map(show_pair).collect()
}
fn show_pair(p: &(OutKind, String)) -> String {
    let pre = match p.0 {
        OutKind::Down => "↓",
        OutKind::Up => "↑",
        OutKind::BtnDown => "🖰↓",
        OutKind::BtnUp => "🖰↑",
        OutKind::Unicode => "U:",
        _ => "?",
    };
    format!("{pre}{}", p.1)
}

/// what a custom step of the expansion (SK::U) looks like in the OS stream
fn custom_obs(name: &str) -> Vec<(OutKind, String)> {
    if let Some(b) = name.strip_prefix("btn:") {
        vec![(OutKind::BtnDown, b.to_string()), (OutKind::BtnUp, b.to_string())]
    } else if let Some(k) = name.strip_prefix("vk:") {
        vec![(OutKind::Down, k.to_string()), (OutKind::Up, k.to_string())]
    } else {
        vec![(OutKind::Unicode, name.to_string())]
    }
}

/// the part of the OS stream (from trace index `from`, redundant releases dropped) made of the given events
fn filter_stream(sim: &Sim, from: usize, of: &[(OutKind, String)]) -> Vec<(u64, (OutKind, String))> {
    sim.trace[from..]
        .iter()
        .filter(|o| !o.redundant)
        .filter(|o| of.iter().any(|p| p.0 == o.kind && p.1 == o.name))
        .map(|o| (o.at, (o.kind.clone(), o.name.clone())))
        .collect()
}

fn is_subseq(small: &[(OutKind, String)], big: &[(OutKind, String)]) -> bool {
    let mut i = 0;
    for b in big {
        if i < small.len() && small[i] == *b {
            i += 1;
        }
    }
    i == small.len()
}

/// None if equal; otherwise the structural class of the difference
fn seq_class(obs: &[(OutKind, String)], exp: &[(OutKind, String)]) -> Option<&'static str> {
    if obs == exp {
        None
    } else if is_subseq(obs, exp) {
        Some("lost")
    } else if is_subseq(exp, obs) {
        Some("repeated")
    } else {
        Some("order")
    }
}

/// A timed input plan: (input time in ticks from the start of the scenario, event).
struct Plan {
    evs: Vec<(u64, Ev)>,
}
impl Plan {
    fn new() -> Plan {
        Plan { evs: vec![] }
    }
    fn at(&mut self, t: u64, e: Ev) {
        self.evs.push((t, e));
    }
}

// ------------------------------------------------------------------------------------------------
// custom-meanwhile

#[derive(Clone, Copy, Debug, PartialEq, Eq)]
enum TypedKind {
    Unicode,
    Mouse,
    VkOnPress,
    VkOnRelease,
    RcMacro,
    CpMacro,
}
const TYPED_KINDS: [TypedKind; 6] = [TypedKind::Unicode, TypedKind::RcMacro, TypedKind::Mouse, TypedKind::VkOnPress, TypedKind::CpMacro, TypedKind::VkOnRelease];

struct TypedKey {
    kind: TypedKind,
    code: u16,
    /// OS stream expected from its press / from its release
    on_press: Vec<(OutKind, String)>,
    on_release: Vec<(OutKind, String)>,
    /// must stay down until every macro has finished (its release cancels macros)
    hold_through: bool,
}

pub(super) struct XCfg {
    pub cfg: CaseCfg,
    typed: TypedKey,
    /// custom events of one run of the macro, as the OS stream shows them
    per_run: Vec<(OutKind, String)>,
}

/// main-macro variants of the custom-meanwhile family (a press must not cancel them)
const X_VARIANTS: [usize; 3] = [0, 2, 1];

pub(super) fn make_x(ctx: &Ctx, idx: u64) -> XCfg {
    let mut rng = Rng::for_case(ctx.seed, "C08", "cfgx", idx);
    let sub = (idx - base_cases(ctx)) / 2;
    let variant = VARIANTS[X_VARIANTS[(sub % 3) as usize]];
    let kind = TYPED_KINDS[((sub / 3) % 6) as usize];
    let mut letters: Vec<String> = LETTERS.iter().map(|s| s.to_string()).collect();
    rng.shuffle(&mut letters);
    let mut mods: Vec<String> = MODS.iter().map(|s| s.to_string()).collect();
    rng.shuffle(&mut mods);
    let my_letters: Vec<String> = letters.drain(..6).collect();
    let my_mods: Vec<String> = mods.drain(..3).collect();
    let typed_letters: Vec<String> = letters.drain(..2).collect();
    // 1-3 custom items of distinct kinds/payloads
    let n_c = 1 + rng.usize(3);
    let mut unis: Vec<char> = UNIS.to_vec();
    rng.shuffle(&mut unis);
    let mut btns: Vec<usize> = vec![0, 1, 2];
    rng.shuffle(&mut btns);
    let mut vks: Vec<usize> = vec![0, 1, 2];
    rng.shuffle(&mut vks);
    let mut customs = vec![];
    for _ in 0..n_c {
        customs.push(match rng.usize(4) {
            0 | 1 => Item::Uni(unis.pop().unwrap_or('λ')),
            2 => Item::Btn(btns.pop().unwrap_or(0)),
            _ => Item::Vk(vks.pop().unwrap_or(0)),
        });
    }
    let budget = 3 + rng.usize(14) as i32;
    let mut body;
    {
        let mut g = BodyGen {
            rng: &mut rng,
            letters: my_letters.clone(),
            mods: my_mods.clone(),
            held: vec![],
            uni: None,
            uni_used: false,
            budget,
            delays: &[1, 1, 2, 3, 5, 8],
            customs,
            customs_placed: 0,
            custom_pct: 30,
        };
        let n_items = 2 + g.rng.usize(6);
        body = g.items(0, n_items);
        // whatever was not placed goes to the end
        let placed = g.customs_placed;
        for (i, c) in g.customs.drain(..).enumerate() {
            if placed + i > 0 {
                body.push(Item::Delay(5));
            }
            body.push(c);
        }
    }
    if !expand(&body).steps.iter().any(|s| s.kind != SK::U) {
        body.push(Item::Key(my_letters[0].clone()));
    }
    if variant.repeat {
        // keep the custom items of one run away from those of the next run
        body.push(Item::Delay(5));
    }
    let exp = expand(&body);
    let mut alphabet: BTreeSet<String> = BTreeSet::new();
    for l in my_letters.iter().chain(my_mods.iter()) {
        alphabet.insert(code_name(osc(l)));
    }
    let per_run: Vec<(OutKind, String)> = exp.steps.iter().filter(|s| s.kind == SK::U).flat_map(|s| custom_obs(&s.name)).collect();
    let m = Macro { trigger: TRIGGERS[0], code: osc(TRIGGERS[0]), variant, body, exp, alphabet, uni: None };
    // the typed key
    let tcode = osc(TRIGGERS[1]);
    let tk = |n: &str| code_name(osc(n));
    let tmacro: Vec<(OutKind, String)> = vec![
        (OutKind::Down, tk(&typed_letters[0])),
        (OutKind::Up, tk(&typed_letters[0])),
        (OutKind::Down, tk(&typed_letters[1])),
        (OutKind::Up, tk(&typed_letters[1])),
    ];
    let (cell, on_press, on_release, hold_through) = match kind {
        TypedKind::Unicode => ("(unicode ξ)".to_string(), vec![(OutKind::Unicode, "ξ".to_string())], vec![], false),
        TypedKind::Mouse => (BTNS[4].0.to_string(), vec![(OutKind::BtnDown, BTNS[4].1.to_string())], vec![(OutKind::BtnUp, BTNS[4].1.to_string())], false),
        TypedKind::VkOnPress => (format!("(on-press tap-vkey {})", VKS[3].0), vec![(OutKind::Down, tk(VKS[3].1)), (OutKind::Up, tk(VKS[3].1))], vec![], false),
        TypedKind::VkOnRelease => (format!("(on-release tap-vkey {})", VKS[3].0), vec![], vec![(OutKind::Down, tk(VKS[3].1)), (OutKind::Up, tk(VKS[3].1))], false),
        TypedKind::RcMacro => (format!("(macro-release-cancel {} 3 {})", typed_letters[0], typed_letters[1]), tmacro, vec![], true),
        TypedKind::CpMacro => (format!("(macro-cancel-on-press {} 3 {})", typed_letters[0], typed_letters[1]), tmacro, vec![], true),
    };
    let typed = TypedKey { kind, code: tcode, on_press, on_release, hold_through };
    let vk_defs: Vec<String> = VKS.iter().map(|(n, k)| format!("{n} {k}")).collect();
    let text = format!(
        "(defvirtualkeys {})\n(defsrc {} {})\n(deflayer l0\n  ({} {})\n  {}\n)\n",
        vk_defs.join(" "),
        TRIGGERS[0],
        TRIGGERS[1],
        m.variant.name,
        render_items(&m.body),
        cell
    );
    XCfg { cfg: CaseCfg { family: Family::CustomMeanwhile, macros: vec![m], text, trig: Trig::Press }, typed, per_run }
}

pub(super) fn run_x(out: &mut CaseOut, ctx: &Ctx, idx: u64, rng: &mut Rng) {
    let x = make_x(ctx, idx);
    let m = &x.cfg.macros[0];
    let dur = m.exp.steps.len() as u64 + m.exp.total_delay as u64;
    out.count("xcustom_items_in_bodies", m.exp.steps.iter().filter(|s| s.kind == SK::U).count() as u64);
    for at in 0..=(dur + 3).min(70) {
        scenario_x(out, &x, rng, at);
    }
    out.max("xcustom_offset", (dur + 3).min(70));
}

/// the macro key is pressed at time 0, the key with the custom action `at` ticks later
fn scenario_x(out: &mut CaseOut, x: &XCfg, rng: &mut Rng, at: u64) {
    let cfg = &x.cfg;
    let m = &cfg.macros[0];
    let v = m.variant;
    let Ok(mut d) = Drv::new(&cfg.text) else {
        out.inc("configs_rejected");
        return;
    };
    let dur = m.exp.steps.len() as u64 + m.exp.total_delay as u64;
    let bound = run_bound(m);
    let from = d.sim.trace.len();
    let start = d.now();
    let mut plan = Plan::new();
    plan.at(0, Ev::P(m.code));
    // when the macro key goes up again
    let hold_main = v.rc || v.repeat || rng.coin();
    let main_release = if v.repeat {
        Some(rng.range(dur + 2, 2 * dur + dur / 2 + 8))
    } else if hold_main {
        None
    } else {
        Some(rng.below(3))
    };
    if let Some(t) = main_release {
        plan.at(t, Ev::R(m.code));
    }
    plan.at(at, Ev::P(x.typed.code));
    let typed_hold = 1 + rng.below(9);
    if !x.typed.hold_through {
        plan.at(at + typed_hold, Ev::R(x.typed.code));
    }
    let mut deferred = 0u64;
    let mut released_at = None;
    let main_code = m.code;
    // run the plan; a custom item that is still pending after a tick was deferred by that tick
    {
        let mut evs = plan;
        evs.evs.sort_by_key(|e| e.0);
        for (t, e) in evs.evs {
            while d.now() - start < t {
                d.tick(1);
                if d.sim.k.layout.b().states.iter().any(|s| matches!(s, kanata_keyberon::layout::State::SeqCustomPending(_))) {
                    deferred += 1;
                }
            }
            match e {
                Ev::P(c) => d.press(c),
                Ev::R(c) => {
                    d.release(c);
                    if c == main_code {
                        // processed after whatever is queued in front of it (one event per tick)
                        released_at = Some(d.now() + d.sim.k.layout.b().queue.len() as u64);
                    }
                }
                _ => {}
            }
        }
    }
    // let everything play
    let t0 = d.now();
    loop {
        d.tick(1);
        if d.sim.k.layout.b().states.iter().any(|s| matches!(s, kanata_keyberon::layout::State::SeqCustomPending(_))) {
            deferred += 1;
        }
        let done = d.now() - t0 >= 3 && d.sim.k.layout.b().active_sequences.is_empty();
        if done || d.now() - t0 > bound {
            break;
        }
    }
    let q0 = quiesce(&mut d, bound + 40);
    if main_release.is_none() {
        d.release(m.code);
    }
    if x.typed.hold_through {
        d.release(x.typed.code);
    }
    let q1 = quiesce(&mut d, bound + 40);
    let label = format!(
        "a key with a custom action ({:?}) pressed {at} ms after the macro key{}",
        x.typed.kind,
        if x.typed.hold_through { ", held to the end".to_string() } else { format!(", released {typed_hold} ms later") }
    );
    out.inc("xcustom_scenarios");
    out.inc(&format!("xcustom_typed_{:?}", x.typed.kind));
    out.inc(&format!("xcustom_variant_{}", v.name));
    out.count("xcustom_items_deferred", deferred);
    if !(q0 && q1) {
        let obs = project(&d.sim, from, m, false);
        let j = Judge { out, cfg, scenario: label };
        let w = j.witness(&d, m, &obs, &m.exp.steps, json!({"bound": bound}));
        out.violate("C08:never-finishes", format!("{}: still running long after everything was released", v.name), w);
        return;
    }
    // (a) the macro's keys: the usual projection, custom items left out
    let ex = if v.repeat {
        Expect { runs_exact: None, min_runs: 1, cut_ok: false, cancel_at: None, released_at, with_uni: false }
    } else {
        Expect { runs_exact: Some(1), min_runs: 1, cut_ok: false, cancel_at: None, released_at: None, with_uni: false }
    };
    let r = {
        let mut j = Judge { out, cfg, scenario: label.clone() };
        judge_macro(&mut j, &d, from, start, m, &ex, false)
    };
    out.inc(&format!("xcustom_{r}"));
    if r != "full" {
        return;
    }
    let key_steps = strip_uni(&m.exp.steps);
    let kobs = project(&d.sim, from, m, false);
    let runs = read_projection(&kobs, &key_steps, m.exp.trailing_delay, start).runs;
    // (b) the macro's custom items: every one of every run exactly once, in the order written
    let mut expected: Vec<(OutKind, String)> = vec![];
    for _ in 0..runs {
        expected.extend(x.per_run.iter().cloned());
    }
    let seen_t = filter_stream(&d.sim, from, &x.per_run);
    let seen: Vec<(OutKind, String)> = seen_t.iter().map(|s| s.1.clone()).collect();
    let typed_all: Vec<(OutKind, String)> = x.typed.on_press.iter().chain(x.typed.on_release.iter()).cloned().collect();
    let tseen_t = filter_stream(&d.sim, from, &typed_all);
    let tseen: Vec<(OutKind, String)> = tseen_t.iter().map(|s| s.1.clone()).collect();
    let extra = json!({
        "runs_of_the_macro": runs,
        "macro_custom_items_expected": pairs_json(&expected),
        "macro_custom_items_observed": pairs_json(&seen),
        "typed_key_expected": pairs_json(&typed_all),
        "typed_key_observed": pairs_json(&tseen),
        "os_stream": d.sim.trace_short(),
    });
    if let Some(class) = seq_class(&seen, &expected) {
        let j = Judge { out, cfg, scenario: label.clone() };
        let w = j.witness(&d, m, &kobs, &m.exp.steps, extra.clone());
        out.violate(
            format!("C08:custom-item-{class}"),
            format!("{}: custom items of the body came out as [{}], the body spells [{}] ({} run(s))", v.name, pairs_json(&seen).join(" "), pairs_json(&x.per_run).join(" "), runs),
            w,
        );
    } else {
        out.count("xcustom_items_seen_once", (runs * m.exp.steps.iter().filter(|s| s.kind == SK::U).count()) as u64);
    }
    // (c) the key typed meanwhile: its own custom action exactly once as well
    if let Some(class) = seq_class(&tseen, &typed_all) {
        let j = Judge { out, cfg, scenario: label.clone() };
        let w = j.witness(&d, m, &kobs, &m.exp.steps, extra);
        out.violate(
            format!("C08:typed-key-custom-{class}"),
            format!("{}: the key typed while the macro ran ({:?}) produced [{}], expected [{}]", v.name, x.typed.kind, pairs_json(&tseen).join(" "), pairs_json(&typed_all).join(" ")),
            w,
        );
    } else {
        out.inc("xcustom_typed_seen_once");
    }
    // nothing may be left down (mouse buttons, virtual-key outputs)
    if !d.sim.os.all_up() {
        let j = Judge { out, cfg, scenario: label.clone() };
        let w = j.witness(&d, m, &kobs, &m.exp.steps, json!({"os_stream": d.sim.trace_short()}));
        out.violate("C08:stuck-key", format!("{}: {} at the end", v.name, d.sim.os.describe()), w);
    }
    // how close the typed key's custom effect came to one of the macro's custom items
    let near = tseen_t.iter().any(|t| seen_t.iter().any(|s| s.0.abs_diff(t.0) <= 1));
    if near {
        out.inc("xcustom_typed_within_1ms_of_macro_item");
    }
    out.tag(format!("xcustom|{}|{:?}|{}|{}|{}", v.name, x.typed.kind, shape_tag(m), at.min(40), near));
}

// ------------------------------------------------------------------------------------------------
// shared-key

pub(super) struct SCfg {
    pub cfg: CaseCfg,
    /// (configuration name, OS name, code) of the physical keys that output a modifier of the macro
    shared: Vec<(String, String, u16)>,
}

/// macro variants of the shared-key family (cancel-on-press ones only with the physical key pressed before the macro)
const S_VARIANTS: [usize; 5] = [0, 2, 4, 6, 1];

fn mods_used(items: &[Item], out: &mut Vec<String>) {
    for it in items {
        match it {
            Item::Chord(ms, _) => out.extend(ms.iter().cloned()),
            Item::Group(ms, inner, _) => {
                out.extend(ms.iter().cloned());
                mods_used(inner, out);
            }
            Item::List(inner) => mods_used(inner, out),
            _ => {}
        }
    }
}

pub(super) fn make_s(ctx: &Ctx, idx: u64) -> SCfg {
    let mut rng = Rng::for_case(ctx.seed, "C08", "cfgs", idx);
    let sub = (idx - base_cases(ctx)) / 2;
    let variant = VARIANTS[S_VARIANTS[(sub % 5) as usize]];
    let mut letters: Vec<String> = LETTERS.iter().map(|s| s.to_string()).collect();
    rng.shuffle(&mut letters);
    let mut mods: Vec<String> = MODS.iter().map(|s| s.to_string()).collect();
    rng.shuffle(&mut mods);
    let my_letters: Vec<String> = letters.drain(..6).collect();
    let my_mods: Vec<String> = mods.drain(..4).collect();
    let budget = 4 + rng.usize(12) as i32;
    let body;
    let group_mods: Vec<String>;
    {
        let mut g = BodyGen {
            rng: &mut rng,
            letters: my_letters.clone(),
            mods: my_mods.clone(),
            held: vec![],
            uni: None,
            uni_used: false,
            budget,
            delays: &[1, 1, 2, 3, 5, 8, 15],
            customs: vec![],
            customs_placed: 0,
            custom_pct: 0,
        };
        let n_pre = g.rng.usize(3);
        let mut b = g.items(0, n_pre);
        let ms = g.free_mods(2);
        g.held.extend(ms.iter().cloned());
        g.budget = g.budget.max(6);
        let n_in = 2 + g.rng.usize(4);
        let mut inner = g.items(1, n_in);
        // the group must type at least two keys with something in between
        let l0 = g.rng.pick(&g.letters.clone()).clone();
        let l1 = g.rng.pick(&g.letters.clone()).clone();
        let dl = *g.rng.pick(g.delays);
        inner.insert(0, Item::Key(l0));
        inner.push(Item::Delay(dl));
        inner.push(Item::Key(l1));
        g.held.clear();
        let spaced = g.rng.chance(1, 8);
        b.push(Item::Group(ms.clone(), inner, spaced));
        g.budget = g.budget.max(3);
        let n_post = g.rng.usize(3);
        b.extend(g.items(0, n_post));
        body = b;
        group_mods = ms;
    }
    let exp = expand(&body);
    let mut alphabet: BTreeSet<String> = BTreeSet::new();
    for l in my_letters.iter().chain(my_mods.iter()) {
        alphabet.insert(code_name(osc(l)));
    }
    // which modifiers get a physical twin: the first of the forced group, sometimes a second one used anywhere
    let mut shared_names = vec![group_mods[0].clone()];
    let mut used = vec![];
    mods_used(&body, &mut used);
    used.retain(|u| *u != group_mods[0]);
    used.dedup();
    if !used.is_empty() && rng.coin() {
        shared_names.push(rng.pick(&used).clone());
    }
    let shared: Vec<(String, String, u16)> = shared_names.iter().map(|n| (n.clone(), code_name(osc(n)), osc(n))).collect();
    let m = Macro { trigger: TRIGGERS[0], code: osc(TRIGGERS[0]), variant, body, exp, alphabet, uni: None };
    let text = format!(
        "(defsrc {} {})\n(deflayer l0\n  ({} {})\n  {}\n)\n",
        TRIGGERS[0],
        shared_names.join(" "),
        m.variant.name,
        render_items(&m.body),
        shared_names.join(" ")
    );
    SCfg { cfg: CaseCfg { family: Family::SharedKey, macros: vec![m], text, trig: Trig::Press }, shared }
}

pub(super) fn run_s(out: &mut CaseOut, ctx: &Ctx, idx: u64, rng: &mut Rng) {
    let s = make_s(ctx, idx);
    let m = &s.cfg.macros[0];
    let dur = m.exp.steps.len() as u64 + m.exp.total_delay as u64;
    let last = (dur + 4).min(90);
    // the physical key is down before the macro starts and released at every offset
    for r in 0..=last {
        let lead = 1 + rng.below(6);
        scenario_s(out, &s, rng, None, lead, lead + r);
    }
    // the physical key is pressed while the macro runs (a press would cancel the cancel-on-press variants)
    if !m.variant.cp {
        for _ in 0..6 {
            let tp = rng.range(0, dur);
            let tr = rng.range(tp + 1, last.max(tp + 1));
            scenario_s(out, &s, rng, Some(tp), 0, tr);
        }
    }
    out.max("shared_release_offset", last);
}

/// The macro key is pressed at time `t_macro`. The first shared physical key is pressed at time 0
/// (`press_during` None) or `press_during` ticks after the macro key, and released at `t_release`
/// (absolute). A second shared key, if any, is down from the start and released at a random time.
fn scenario_s(out: &mut CaseOut, s: &SCfg, rng: &mut Rng, press_during: Option<u64>, t_macro: u64, t_release: u64) {
    let cfg = &s.cfg;
    let m = &cfg.macros[0];
    let v = m.variant;
    let Ok(mut d) = Drv::new(&cfg.text) else {
        out.inc("configs_rejected");
        return;
    };
    let dur = m.exp.steps.len() as u64 + m.exp.total_delay as u64;
    let bound = run_bound(m);
    let mut plan = Plan::new();
    // physical intervals per shared key: (press time, release time), input times relative to scenario start
    let mut phys: Vec<Option<(u64, u64)>> = vec![None; s.shared.len()];
    let p0 = press_during.map(|t| t_macro + t).unwrap_or(0);
    plan.at(p0, Ev::P(s.shared[0].2));
    plan.at(t_release, Ev::R(s.shared[0].2));
    phys[0] = Some((p0, t_release));
    if s.shared.len() > 1 && rng.coin() {
        let r1 = rng.range(1, t_macro + dur + 4);
        plan.at(0, Ev::P(s.shared[1].2));
        plan.at(r1, Ev::R(s.shared[1].2));
        phys[1] = Some((0, r1));
    }
    plan.at(t_macro, Ev::P(m.code));
    let hold_main = v.rc || v.repeat || rng.coin();
    let main_release = if v.repeat {
        Some(t_macro + rng.range(dur + 2, 2 * dur + dur / 2 + 8))
    } else if hold_main {
        None
    } else {
        Some(t_macro + rng.below(3))
    };
    if let Some(t) = main_release {
        plan.at(t, Ev::R(m.code));
    }
    let t_begin = d.now();
    // run the plan, remembering where the macro key was pressed / released
    let mut from = 0;
    let mut start = 0;
    let mut released_at = None;
    {
        plan.evs.sort_by_key(|e| e.0);
        let evs = std::mem::take(&mut plan.evs);
        for (t, e) in evs {
            while d.now() - t_begin < t {
                d.tick(1);
            }
            match e {
                Ev::P(c) => {
                    if c == m.code {
                        from = d.sim.trace.len();
                        start = d.now();
                    }
                    d.press(c)
                }
                Ev::R(c) => {
                    d.release(c);
                    if c == m.code {
                        // processed after whatever is queued in front of it (one event per tick)
                        released_at = Some(d.now() + d.sim.k.layout.b().queue.len() as u64);
                    }
                }
                _ => {}
            }
        }
    }
    let t0 = d.now();
    loop {
        d.tick(1);
        let done = d.now() - t0 >= 3 && d.sim.k.layout.b().active_sequences.is_empty();
        if done || d.now() - t0 > bound {
            break;
        }
    }
    let q0 = quiesce(&mut d, bound + 40);
    if main_release.is_none() {
        d.release(m.code);
    }
    let q1 = quiesce(&mut d, bound + 40);
    let label = format!(
        "physical {} (same key code as a modifier the macro holds) pressed {} and released {} ms after the macro key{}",
        s.shared[0].0,
        match press_during {
            None => format!("{t_macro} ms before"),
            Some(t) => format!("{t} ms after"),
        },
        t_release as i64 - t_macro as i64,
        if phys.len() > 1 && phys[1].is_some() { format!("; physical {} down from the start", s.shared[1].0) } else { String::new() }
    );
    out.inc("shared_scenarios");
    out.inc(if press_during.is_some() { "shared_pressed_during_macro" } else { "shared_pressed_before_macro" });
    out.inc(&format!("shared_variant_{}", v.name));
    // the macro without the shared keys: alphabet and expansion
    let shared_os: Vec<String> = s.shared.iter().map(|x| x.1.clone()).collect();
    let mut red_alpha = m.alphabet.clone();
    for n in &shared_os {
        red_alpha.remove(n);
    }
    let mut red_steps: Vec<XStep> = vec![];
    // for every remaining step: the shared modifiers the body holds at that step (press steps only)
    let mut need: Vec<Option<Vec<String>>> = vec![];
    {
        let mut open: Vec<String> = vec![];
        let mut carry = 0;
        let mut skipped = 0;
        for st in &m.exp.steps {
            if shared_os.contains(&st.name) {
                carry += st.min_gap;
                skipped += 1;
                match st.kind {
                    SK::P => open.push(st.name.clone()),
                    SK::R => open.retain(|o| *o != st.name),
                    SK::U => {}
                }
            } else {
                let mut st2 = st.clone();
                st2.min_gap += carry;
                st2.skipped += skipped;
                carry = 0;
                skipped = 0;
                need.push(if st.kind == SK::P { Some(open.clone()) } else { None });
                red_steps.push(st2);
            }
        }
    }
    let trailing = m.exp.trailing_delay;
    let m2 = Macro {
        trigger: m.trigger,
        code: m.code,
        variant: v,
        body: m.body.clone(),
        exp: Expansion { steps: red_steps.clone(), trailing_delay: trailing, total_delay: m.exp.total_delay },
        alphabet: red_alpha,
        uni: None,
    };
    if !(q0 && q1) {
        let obs = project(&d.sim, from, &m2, false);
        let j = Judge { out, cfg, scenario: label };
        let w = j.witness(&d, m, &obs, &m.exp.steps, json!({"bound": bound}));
        out.violate("C08:never-finishes", format!("{}: still running long after everything was released", v.name), w);
        return;
    }
    let ex = if v.repeat {
        Expect { runs_exact: None, min_runs: 1, cut_ok: false, cancel_at: None, released_at, with_uni: false }
    } else {
        Expect { runs_exact: Some(1), min_runs: 1, cut_ok: false, cancel_at: None, released_at: None, with_uni: false }
    };
    let r = {
        let mut j = Judge { out, cfg, scenario: format!("{label} (keys other than the shared ones)") };
        judge_macro(&mut j, &d, from, start, &m2, &ex, false)
    };
    out.inc(&format!("shared_{r}"));
    // the shared keys must be up once every physical key and the macro key are released
    let stuck: Vec<String> = d.sim.os.keys_down.iter().filter(|k| shared_os.contains(*k)).cloned().collect();
    if !stuck.is_empty() {
        let obs = project(&d.sim, from, &m2, false);
        let j = Judge { out, cfg, scenario: label.clone() };
        let w = j.witness(&d, m, &obs, &m.exp.steps, json!({"still_down": stuck, "os_stream": d.sim.trace_short()}));
        out.violate("C08:stuck-key", format!("{}: {} still down at the end", v.name, stuck.join(",")), w);
        return;
    }
    if r != "full" {
        return;
    }
    // OS key state at every key press of the macro. The j-th step of the projection is step j mod n of the
    // reduced expansion (the reading above was accepted; press steps are never inside an unordered block).
    let n = red_steps.len();
    let mut down: BTreeSet<String> = BTreeSet::new();
    let mut j = 0usize;
    let mut after_release = 0u64;
    let mut judged = 0u64;
    let mut free_judged = 0u64;
    let mut bad: Option<(String, String, Value)> = None;
    for (ti, o) in d.sim.trace.iter().enumerate() {
        let is_key = matches!(o.kind, OutKind::Down | OutKind::Up) && !o.redundant;
        if ti >= from && is_key && m2.alphabet.contains(&o.name) {
            let e = j % n;
            j += 1;
            if let (OutKind::Down, Some(held)) = (&o.kind, &need[e]) {
                for (si, sh) in shared_os.iter().enumerate() {
                    let body_holds = held.contains(sh);
                    let os_down = down.contains(sh);
                    // is the physical twin possibly down at this tick?
                    let phys_maybe_down = phys[si].map(|(p, r)| o.at >= t_begin + p && o.at <= t_begin + r + SLACK).unwrap_or(false);
                    if body_holds {
                        judged += 1;
                        if let Some((p, r)) = phys[si] {
                            if o.at > t_begin + r + 1 && t_begin + p < start + 1 {
                                after_release += 1;
                            }
                        }
                        if !os_down && bad.is_none() {
                            bad = Some((
                                "C08:held-key-not-down".to_string(),
                                format!("{}: the body holds {sh} while it presses {} (step #{} of the projection, tick {}), but the OS sees {sh} up at that moment", v.name, o.name, j - 1, o.at),
                                json!({"step": j - 1, "key": o.name, "tick": o.at, "modifier": sh}),
                            ));
                        }
                    } else if !phys_maybe_down {
                        free_judged += 1;
                        if os_down && bad.is_none() {
                            bad = Some((
                                "C08:key-down-outside-hold".to_string(),
                                format!("{}: {sh} is down in the OS when the macro presses {} (tick {}), although the body does not hold it there and the physical key is up", v.name, o.name, o.at),
                                json!({"step": j - 1, "key": o.name, "tick": o.at, "modifier": sh}),
                            ));
                        }
                    }
                }
            }
        }
        if is_key && shared_os.contains(&o.name) {
            if o.kind == OutKind::Down {
                down.insert(o.name.clone());
            } else {
                down.remove(&o.name);
            }
        }
    }
    out.count("shared_held_presses_judged", judged);
    out.count("shared_unheld_presses_judged", free_judged);
    out.count("shared_held_presses_after_physical_release", after_release);
    if after_release > 0 {
        out.inc("shared_scenarios_released_while_macro_holds");
    }
    if let Some((sig, what, info)) = bad {
        let obs = project(&d.sim, from, &m2, false);
        let jd = Judge { out, cfg, scenario: label.clone() };
        let w = jd.witness(&d, m, &obs, &m.exp.steps, json!({"violated_at": info, "shared_physical_keys": s.shared.iter().map(|x| x.0.clone()).collect::<Vec<_>>(), "physical_intervals": format!("{phys:?}"), "os_stream": d.sim.trace_short()}));
        out.violate(sig, what, w);
    }
    out.tag(format!("shared|{}|{}|{}|{}|{}", v.name, shape_tag(m), press_during.is_some(), (t_release as i64 - t_macro as i64).min(40), s.shared.len()));
}
