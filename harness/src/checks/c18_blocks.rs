//! C18 part I: virtual keys defined in SEVERAL definition blocks.
//!
//! A configuration may define its virtual keys in any number of `deffakekeys` and `defvirtualkeys`
//! blocks, in any mix and order, before or after the layers that use them. Every virtual key - also
//! the keys of the second and third block - is a key of its own: it performs its own action and has
//! its own pressed state. Configurations with 2 and 3 blocks in every mix of the two spellings, 1 or 2
//! keys per block, the last block(s) written before or after the layers, keys carrying a plain key
//! each (every key another output) or a macro / a layer-while-held action on the first key of the
//! first / last block. Every operation (press / release / tap / toggle) of every key of every block
//! is made through every route of part A (direct fake-key call, on-press, on-release, the legacy
//! on-press-fakekey / on-release-fakekey forms, a macro item, defseq completion): ALL histories of one
//! and two operations and seeded longer ones, judged by the per-key model of part A after every
//! operation (OS state of EVERY virtual key, active layer) and as a whole (OS stream, probe key).

use super::{quiet_settle, tap_phys, OEv, Op, Path, OPS, PATHS};
use crate::core::sim::{code_name, osc, render_hist, Ev, OutKind, Sim};
use crate::core::{CaseOut, Ctx};
use serde_json::{json, Value};
use std::collections::BTreeSet;

#[derive(Clone, Copy, PartialEq, Eq, Debug)]
enum IKind {
    Key(&'static str),
    Layer,
    Macro(&'static str),
}

#[derive(Clone, Debug)]
pub struct ConfI {
    /// per block in file order: (written as deffakekeys, number of keys)
    pub blocks: Vec<(bool, usize)>,
    /// this many of the last blocks are written after the layers
    pub after_layers: usize,
    /// false: every key carries a plain key; true: first key of the first block a macro, first key of
    /// the last block layer-while-held
    pub mixed_kinds: bool,
    pub path: Path,
}

const I_VNAMES: [&str; 6] = ["v1", "v2", "v3", "v4", "v5", "v6"];
const I_OUTS: [&str; 6] = ["1", "2", "3", "4", "5", "6"];
const I_MACRO_OUT: &str = "y";
const I_TRIG: [&str; 24] = ["a", "b", "c", "d", "e", "f", "g", "h", "i", "j", "k", "l", "m", "n", "o", "p", "q", "r", "s", "t", "u", "v", "w", "x"];
const I_PROBE: &str = "z";
const I_PROBE_NAV: &str = "9";

impl ConfI {
    pub fn nkeys(&self) -> usize {
        self.blocks.iter().map(|b| b.1).sum()
    }
    /// block number of virtual key v
    fn block_of(&self, v: usize) -> usize {
        let mut s = 0;
        for (bi, b) in self.blocks.iter().enumerate() {
            s += b.1;
            if v < s {
                return bi;
            }
        }
        self.blocks.len() - 1
    }
    fn first_of_block(&self, bi: usize) -> usize {
        self.blocks.iter().take(bi).map(|b| b.1).sum()
    }
    fn kind(&self, v: usize) -> IKind {
        if self.mixed_kinds {
            if v == 0 {
                return IKind::Macro(I_MACRO_OUT);
            }
            if v == self.first_of_block(self.blocks.len() - 1) {
                return IKind::Layer;
            }
        }
        IKind::Key(I_OUTS[v])
    }
    fn alphabet(&self) -> Vec<(usize, Op)> {
        let mut a = vec![];
        for v in 0..self.nkeys() {
            for op in OPS {
                if matches!(self.kind(v), IKind::Macro(_)) && op != Op::Tap {
                    continue;
                }
                a.push((v, op));
            }
        }
        a
    }
    fn spelling(&self) -> String {
        self.blocks.iter().map(|b| format!("{}{}", if b.0 { "F" } else { "V" }, b.1)).collect::<Vec<_>>().join("")
    }
    pub fn label(&self) -> String {
        format!("blocks|{}|after{}|{}|{:?}", self.spelling(), self.after_layers, if self.mixed_kinds { "macro+keys+layer" } else { "keys" }, self.path)
    }
    fn seq_keys(&self, v: usize) -> [&'static str; 2] {
        [I_TRIG[1 + 2 * v], I_TRIG[2 + 2 * v]]
    }
    fn n_src(&self) -> usize {
        if self.path == Path::Seq {
            1 + 2 * self.nkeys()
        } else {
            self.alphabet().len()
        }
    }
    pub fn text(&self) -> String {
        let alpha = self.alphabet();
        let n = self.n_src();
        let mut acts: Vec<String> = vec![];
        for j in 0..n {
            let a = match (self.path, alpha.get(j)) {
                (Path::Seq, _) => {
                    if j == 0 {
                        "sldr".to_string()
                    } else {
                        I_TRIG[j].to_string()
                    }
                }
                (Path::Direct, _) | (_, None) => "XX".to_string(),
                (Path::OnPress, Some((v, op))) => format!("(on-press {} {})", op.new_name(), I_VNAMES[*v]),
                (Path::OnRelease, Some((v, op))) => format!("(on-release {} {})", op.new_name(), I_VNAMES[*v]),
                (Path::LegacyPress, Some((v, op))) => format!("(on-press-fakekey {} {})", I_VNAMES[*v], op.old_name()),
                (Path::LegacyRelease, Some((v, op))) => format!("(on-release-fakekey {} {})", I_VNAMES[*v], op.old_name()),
                (Path::MacroItem, Some((v, op))) => format!("(macro (on-press {} {}))", op.new_name(), I_VNAMES[*v]),
            };
            acts.push(a);
        }
        let mut blocks: Vec<String> = vec![];
        let mut v = 0;
        for (fake, cnt) in &self.blocks {
            let mut s = format!("({}", if *fake { "deffakekeys" } else { "defvirtualkeys" });
            for _ in 0..*cnt {
                let act = match self.kind(v) {
                    IKind::Key(o) => o.to_string(),
                    IKind::Layer => "(layer-while-held nav)".into(),
                    IKind::Macro(o) => format!("(macro {o})"),
                };
                s.push_str(&format!(" {} {}", I_VNAMES[v], act));
                v += 1;
            }
            s.push_str(")\n");
            blocks.push(s);
        }
        let nb = blocks.len();
        let mut s = format!("(defcfg process-unmapped-keys yes sequence-timeout 200)\n(defsrc {} {I_PROBE})\n", I_TRIG[..n].join(" "));
        for b in &blocks[..nb - self.after_layers] {
            s.push_str(b);
        }
        s.push_str(&format!("(deflayer base {} {I_PROBE})\n", acts.join(" ")));
        s.push_str(&format!("(deflayer nav {} {I_PROBE_NAV})\n", vec!["_"; n].join(" ")));
        for b in &blocks[nb - self.after_layers..] {
            s.push_str(b);
        }
        if self.path == Path::Seq {
            for v in 0..self.nkeys() {
                let k = self.seq_keys(v);
                s.push_str(&format!("(defseq {} ({} {}))\n", I_VNAMES[v], k[0], k[1]));
            }
        }
        s
    }
}

/// block layouts: 2 and 3 blocks, every mix of the two spellings, 1 or 2 keys per block
fn layouts() -> Vec<Vec<(bool, usize)>> {
    let mut v = vec![];
    for sizes in [vec![1, 1], vec![2, 1], vec![1, 2], vec![2, 2], vec![1, 1, 1], vec![2, 1, 2], vec![1, 2, 1], vec![2, 2, 2]] {
        let nb = sizes.len();
        for mask in 0..(1u32 << nb) {
            v.push(sizes.iter().enumerate().map(|(i, s)| (mask >> i & 1 == 1, *s)).collect());
        }
    }
    v
}

pub fn configs_i() -> Vec<ConfI> {
    let mut v = vec![];
    for (li, blocks) in layouts().into_iter().enumerate() {
        for path in PATHS {
            // two shapes per layout: everything before the layers with plain keys; the last block (for
            // every third layout of three blocks: the last two) after the layers with a macro key in
            // the first and a layer key in the last block
            v.push(ConfI { blocks: blocks.clone(), after_layers: 0, mixed_kinds: false, path });
            let after = if blocks.len() == 3 && li % 3 == 0 { 2 } else { 1 };
            v.push(ConfI { blocks: blocks.clone(), after_layers: after, mixed_kinds: true, path });
        }
    }
    v
}

fn seeded_per_config(ctx: &Ctx) -> u64 {
    ctx.tier.sel(16, 160)
}

struct Names {
    out: Vec<String>,
    probe: String,
    probe_nav: String,
}

fn apply(sim: &mut Sim, c: &ConfI, j: usize, v: usize, op: Op, h: &mut Vec<Ev>) -> bool {
    let before = sim.now;
    let direct = |sim: &mut Sim, h: &mut Vec<Ev>| {
        sim.fakekey(I_VNAMES[v], op.ch());
        h.push(Ev::Fk(I_VNAMES[v].to_string(), op.ch()));
    };
    match c.path {
        Path::Direct => direct(sim, h),
        Path::Seq => {
            if op == Op::Tap {
                let k = c.seq_keys(v);
                tap_phys(sim, I_TRIG[0], h);
                tap_phys(sim, k[0], h);
                tap_phys(sim, k[1], h);
            } else {
                direct(sim, h)
            }
        }
        _ => tap_phys(sim, I_TRIG[j], h),
    }
    let ok = quiet_settle(sim, 4, 3, 80);
    h.push(Ev::T((sim.now - before) as u32));
    ok
}

#[derive(Default)]
struct IStats {
    ops_by_block: [u64; 3],
    ops_on_later_block_fake: u64,
    ops_on_later_block_virtual: u64,
    /// an operation on a key while a key of ANOTHER block is pressed
    ops_while_key_of_other_block_pressed: u64,
}

fn run_history(sim: &mut Sim, c: &ConfI, ops: &[usize], nm: &Names, st: &mut IStats) -> Option<(String, String, Value)> {
    let alpha = c.alphabet();
    let n = c.nkeys();
    sim.trace.clear();
    sim.last_step_start = 0;
    let mut hist: Vec<Ev> = vec![];
    let mut pressed = vec![false; n];
    let mut expected: Vec<OEv> = vec![];
    let form = format!("{:?}", c.path);
    let witness = |sim: &Sim, hist: &[Ev], expected: &[OEv], extra: String| {
        json!({
            "config": c.text(),
            "history": render_hist(hist),
            "operations": ops.iter().map(|j| format!("{}:{:?}", I_VNAMES[alpha[*j].0], alpha[*j].1)).collect::<Vec<_>>(),
            "observed": sim.trace.iter().filter(|o| !o.redundant).map(|o| format!("{}{}", if o.kind == OutKind::Down { "↓" } else { "↑" }, o.name)).collect::<Vec<_>>(),
            "expected": expected.iter().map(|e| format!("{}{}", if e.down { "↓" } else { "↑" }, e.name)).collect::<Vec<_>>(),
            "detail": extra,
        })
    };
    for (step, j) in ops.iter().enumerate() {
        let (v, op) = alpha[*j];
        let bi = c.block_of(v);
        st.ops_by_block[bi.min(2)] += 1;
        if bi > 0 {
            if c.blocks[bi].0 {
                st.ops_on_later_block_fake += 1;
            } else {
                st.ops_on_later_block_virtual += 1;
            }
        }
        if (0..n).any(|i| pressed[i] && c.block_of(i) != bi) {
            st.ops_while_key_of_other_block_pressed += 1;
        }
        let was = pressed[v];
        let (down_ev, up_ev) = match op {
            Op::Press => (!was, false),
            Op::Release => (false, was),
            Op::Tap => (!was, true),
            Op::Toggle => (!was, was),
        };
        match op {
            Op::Press => pressed[v] = true,
            Op::Release | Op::Tap => pressed[v] = false,
            Op::Toggle => pressed[v] = !was,
        }
        match c.kind(v) {
            IKind::Key(_) => {
                if down_ev {
                    expected.push(OEv { down: true, name: nm.out[v].clone() });
                }
                if up_ev {
                    expected.push(OEv { down: false, name: nm.out[v].clone() });
                }
            }
            IKind::Macro(_) => {
                if down_ev {
                    expected.push(OEv { down: true, name: nm.out[v].clone() });
                    expected.push(OEv { down: false, name: nm.out[v].clone() });
                }
            }
            IKind::Layer => {}
        }
        if !apply(sim, c, *j, v, op, &mut hist) {
            return Some((format!("C18:blocks:{form}:not-settled"), format!("after operation #{step} kanata kept producing output / stayed busy"), witness(sim, &hist, &expected, String::new())));
        }
        // state of EVERY virtual key after the operation
        for i in 0..n {
            let (is, what) = match c.kind(i) {
                IKind::Key(_) => (sim.os.keys_down.contains(&nm.out[i]), "the output key of"),
                IKind::Layer => (sim.k.layout.b().current_layer() != 0, "the layer held by"),
                IKind::Macro(_) => continue,
            };
            if is != pressed[i] {
                let opn = if op == Op::Toggle { "toggle" } else { op.old_name() };
                let class = if i != v { format!("other-virtual-key-changed-state-after-{opn}") } else { format!("state-after-{opn}") };
                return Some((
                    format!("C18:blocks:{form}:{class}"),
                    format!("after operation #{step} ({:?} {}, block {}) {what} {} (block {}) is {} but {} in the model", op, I_VNAMES[v], bi + 1, I_VNAMES[i], c.block_of(i) + 1, if is { "down / active" } else { "up / inactive" }, if pressed[i] { "down / active" } else { "up / inactive" }),
                    witness(sim, &hist, &expected, String::new()),
                ));
            }
        }
    }
    let has_layer = (0..n).any(|i| c.kind(i) == IKind::Layer);
    if has_layer {
        let layer_on = (0..n).any(|i| c.kind(i) == IKind::Layer && pressed[i]);
        tap_phys(sim, I_PROBE, &mut hist);
        quiet_settle(sim, 3, 2, 40);
        let name = if layer_on { nm.probe_nav.clone() } else { nm.probe.clone() };
        expected.push(OEv { down: true, name: name.clone() });
        expected.push(OEv { down: false, name });
    }
    let observed: Vec<OEv> = sim
        .trace
        .iter()
        .filter(|o| !o.redundant)
        .map(|o| OEv { down: o.kind == OutKind::Down, name: if matches!(o.kind, OutKind::Down | OutKind::Up) && !o.repress { o.name.clone() } else { format!("<{:?}:{}>", o.kind, o.name) } })
        .collect();
    if observed != expected {
        let acts_o = observed.iter().filter(|e| e.down).count();
        let acts_e = expected.iter().filter(|e| e.down).count();
        let class = if acts_o > acts_e {
            "extra-output"
        } else if acts_o < acts_e {
            "missing-output"
        } else {
            "different-output"
        };
        return Some((format!("C18:blocks:{form}:stream:{class}"), "the OS key stream differs from the model's".into(), witness(sim, &hist, &expected, String::new())));
    }
    for i in 0..n {
        if pressed[i] {
            sim.fakekey(I_VNAMES[i], 'r');
        }
    }
    quiet_settle(sim, 4, 3, 80);
    if !sim.os.all_up() || sim.k.layout.b().current_layer() != 0 {
        return Some((format!("C18:blocks:{form}:reset"), "a direct release of every pressed virtual key did not bring everything up".into(), witness(sim, &hist, &expected, sim.os.describe())));
    }
    None
}

pub fn describe(ci: usize) -> Value {
    match configs_i().get(ci) {
        Some(c) => json!({"config": c.text(), "histories": "all histories of 1 and 2 operations over every (virtual key, operation) pair, plus seeded longer ones"}),
        None => json!({}),
    }
}

pub fn run_config(out: &mut CaseOut, ctx: &Ctx, ci: usize) {
    let confs = configs_i();
    let Some(c) = confs.get(ci) else { return };
    let cfg = c.text();
    let n = c.nkeys();
    let nm = Names {
        out: (0..n)
            .map(|v| match c.kind(v) {
                IKind::Key(o) | IKind::Macro(o) => code_name(osc(o)),
                IKind::Layer => String::new(),
            })
            .collect(),
        probe: code_name(osc(I_PROBE)),
        probe_nav: code_name(osc(I_PROBE_NAV)),
    };
    let mut sim = match Sim::new(&cfg) {
        Ok(s) => s,
        Err(e) => {
            // every one of these configurations is legal: a rejection is a finding of its own
            out.violate("C18:blocks:config-rejected", format!("{}: {}", c.label(), e.lines().next().unwrap_or("")), json!({"config": cfg, "error": e}));
            return;
        }
    };
    let alpha = c.alphabet();
    let a = alpha.len();
    // histories: all of length 1 and 2, then seeded ones of 3..7 operations
    let mut hists: Vec<Vec<usize>> = vec![];
    for x in 0..a {
        hists.push(vec![x]);
    }
    for x in 0..a {
        for y in 0..a {
            hists.push(vec![x, y]);
        }
    }
    let exhaustive = hists.len();
    let mut rng = crate::core::rng::Rng::for_case(ctx.seed, "C18", "blocks", ci as u64);
    for _ in 0..seeded_per_config(ctx) {
        let len = rng.range(3, 7) as usize;
        hists.push((0..len).map(|_| rng.usize(a)).collect());
    }
    let nfake = c.blocks.iter().filter(|b| b.0).count();
    let nvirt = c.blocks.len() - nfake;
    out.inc("blocks_configs");
    out.inc(&format!("blocks_configs_{}_blocks", c.blocks.len()));
    if nfake >= 2 {
        out.inc("blocks_configs_2_or_more_deffakekeys_blocks");
    }
    if nvirt >= 2 {
        out.inc("blocks_configs_2_or_more_defvirtualkeys_blocks");
    }
    if nfake >= 1 && nvirt >= 1 {
        out.inc("blocks_configs_both_spellings");
        if c.blocks[0].0 {
            out.inc("blocks_configs_deffakekeys_block_first");
        } else {
            out.inc("blocks_configs_defvirtualkeys_block_first");
        }
    }
    if c.after_layers > 0 {
        out.inc("blocks_configs_block_after_the_layers");
    }
    let mut st = IStats::default();
    let mut reported: BTreeSet<String> = Default::default();
    for (hi, ops) in hists.iter().enumerate() {
        let mut res = run_history(&mut sim, c, ops, &nm, &mut st);
        if res.is_some() {
            // confirm on a fresh instance
            if let Ok(mut fresh) = Sim::new(&cfg) {
                let mut st2 = IStats::default();
                let r2 = run_history(&mut fresh, c, ops, &nm, &mut st2);
                if r2.is_none() {
                    out.inc("mismatch_not_reproduced_on_fresh_instance");
                    out.inconclusive = Some("a mismatch on a re-used instance did not reproduce on a fresh one".into());
                }
                res = r2;
            }
            if let Ok(s2) = Sim::new(&cfg) {
                sim = s2;
            }
        }
        out.inc("blocks_histories");
        out.inc(&format!("blocks_histories_{:?}", c.path));
        if hi >= exhaustive {
            out.inc("blocks_histories_seeded");
        }
        out.tag(format!("{}|{}", c.label(), ops.iter().take(3).map(|j| j.to_string()).collect::<Vec<_>>().join(",")));
        if let Some((sig, what, wit)) = res {
            if reported.insert(sig.clone()) {
                out.violate(sig, format!("{}: {what}", c.label()), wit);
            }
        }
    }
    out.count("blocks_operations_on_key_of_first_block", st.ops_by_block[0]);
    out.count("blocks_operations_on_key_of_second_block", st.ops_by_block[1]);
    out.count("blocks_operations_on_key_of_third_block", st.ops_by_block[2]);
    out.count("blocks_operations_on_key_of_later_deffakekeys_block", st.ops_on_later_block_fake);
    out.count("blocks_operations_on_key_of_later_defvirtualkeys_block", st.ops_on_later_block_virtual);
    out.count("blocks_operations_while_key_of_another_block_pressed", st.ops_while_key_of_other_block_pressed);
    if ci % 97 == 5 {
        out.sample = Some(json!({"config": cfg, "histories": format!("all histories of 1 and 2 operations over {a} (virtual key, operation) pairs and {} seeded ones of 3..7 operations", hists.len() - exhaustive)}));
    }
}
