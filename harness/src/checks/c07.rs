//! C07 — not implemented yet (stub so that the registry compiles).

use crate::core::{CaseOut, Check, Ctx};

pub struct C07Check;
pub static C07: C07Check = C07Check;

impl Check for C07Check {
    fn id(&self) -> &'static str {
        "C07"
    }
    fn n_cases(&self, _ctx: &Ctx) -> u64 {
        0
    }
    fn run_case(&self, _ctx: &Ctx, _idx: u64) -> CaseOut {
        CaseOut::new()
    }
    fn rule(&self) -> String {
        "not implemented".into()
    }
    fn assumptions(&self) -> Vec<String> {
        vec![]
    }
}
