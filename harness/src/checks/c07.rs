//! C07 — idle blocking is unobservable: whenever kanata decides it may stop its 1 ms loop until the
//! next input event, nothing is pending; sleeping through the gap and ticking through the gap give
//! the same outputs; and the real threaded loop produces the same keys as the deterministic stepper.
//!
//! Part 1 (relational, no model): `run_loop` reproduces the control flow of
//! `Kanata::start_processing_loop` in virtual time (integer milliseconds, zero processing time):
//!
//! ```text
//! loop {
//!   can_block = k.can_block_update_idle_waiting(ms_elapsed)
//!   if can_block { ev = recv()            // sleeps until the next event
//!                  last_tick = now - 1ms; handle(ev); ms_elapsed = handle_time_ticks() /* == 1 */ }
//!   else match try_recv() {
//!       Ok(ev) => { handle(ev); ms_elapsed = handle_time_ticks() /* now - last_tick */ }
//!       Empty  => { ms_elapsed = handle_time_ticks(); sleep(1ms) } } }
//! ```
//!
//! Run L executes exactly that. Run R replays L's iteration sequence, except that wherever L slept
//! g ms it executes g single ticks (consulting the predicate after each, like the loop would) and
//! then handles the event and the wake tick exactly as L did. Outputs are stamped with virtual wall
//! time. Required: no output in any of R's gap ticks, and identical traces of L and R.
//!
//! Zippychord (its state is private to kanata, so everything is judged through outputs): besides the
//! random zippychord family there is a scripted family `zippy-reenable` that walks zippychord's own
//! countdowns: an opening (non-chord key tapped, chord-subset key tapped alone, two non-chord keys
//! rolled, a chord key held past on-first-press-chord-deadline, a chord activation, a key zippychord
//! ignores, nothing), then an idle gap from {0, 1, R/2, R-2 .. R+3, 2R, 3R+7, 1000 .. 9990} around
//! idle-reactivate-time R (all below the 10 000-tick forced reset; one gap in ten is 10 001 .. 70 000),
//! optionally interrupted by a tap of a key zippychord ignores (the loop wakes up, no zippy state
//! change), then a chord attempt (either order, second key at once or around the chord deadline after
//! the first, with or without shift, optional follow-up key).
//!
//! Known cause `zippy-forced-reset-skipped`: a slept-vs-ticked difference of a zippychord
//! configuration is attributed to it only if two further experiments on the real code agree that
//! nothing but the ticks *later than 10 000 ticks after the last zippy state change* matter (see
//! `zippy_forced_reset_explains`): R capped below 10 000 ticks per stretch must equal L, and L kept
//! awake only in the stretches longer than 10 000 ms must equal its ticking twin. Everything else -
//! in particular anything that shows with all idle stretches shorter than 10 000 ms, or that depends
//! on the wait-enable / chord-deadline countdowns - keeps its live `slept-vs-ticked:*` signature.
//!
//! Known cause `override-release-marker-cleared-by-os-repeat` (findings/C07-override-release-marker-
//! cleared-by-repeat.md): tried before the wider `cancelled-macro-key-stale` experiment and only on
//! configurations with `override-release-on-activation yes` + `defoverrides`; the extra tick is granted
//! only if an OS repeat event was handled since the last executed tick, so the three repaired
//! stale-key sites stay under their live signature.
//!
//! Time-driven state that is alive while nothing else is pending (two scripted families, judged by
//! the same L/R relation):
//! * `oneshot-pause`: `one-shot-pause-processing N` (N from {5,20,50,200,300,1000}) started while NO
//!   one-shot is active - on its own key, inside `multi`, through a virtual key tapped on press / on
//!   release, and through the release of a `layer-while-held` key carrying `(on-release tap-vkey ..)`
//!   as in the documented set-up - plus one-shot keys of all five variants with timeouts on both sides
//!   of N. Histories are 1..3 rounds of: opening (pause key tapped; layer key tapped alone; pause key
//!   then a plain key; layer held, one-shot tapped, layer released = the documented use; nothing), idle
//!   gap from {0,1,7,N/2,N-1,N,N+1,2N,2N+40,1000,3000} (one in twelve 10 001 / 70 000), one-shot key
//!   tapped, a plain key tapped 1..20 ms later and again {2,5,N/2,N-1,N,N+1} ms later, pause of
//!   {1,30,T+5,T+N+5,1500}.
//! * `key-timing-lt`: switch `key-timing` where the LARGEST threshold written in the configuration is
//!   a less-than test (no greater-than at all; a smaller greater-than), with controls (a larger
//!   greater-than; the same threshold in both). Threshold from {3..200,50,200,255,256,300,1000,2303,
//!   2304,5000}; the test appears plain, spelled `less-than`, inside `and` / `or` / `not`, on the
//!   second most recent key, directly in the layer or behind an alias, and a second switch key has a
//!   fallthrough case. Histories are 1..3 rounds of: 1..3 plain keys typed, idle gap from {0,1,5,T/2,
//!   T-2..T+2 (for T as written and as stored after the 8 ms / 128 ms compression),2T,2T+50,3T+7,
//!   T+1000,3000} (one in twelve 10 001 / 70 000), a switch key tapped (a third of the time tapped
//!   again at once), pause.
//! A difference that disappears when the sleeping run is kept from blocking while that very state is
//! pending (for the pause: only if its countdown was seen moving during the ticks of a blocked gap) gets the signature `blocked-while:oneshot-pause-countdown-set` /
//! `blocked-while:typed-key-younger-than-a-key-timing-threshold` (tried for every configuration, not
//! only these families); otherwise it keeps its structural `slept-vs-ticked:*` / `gap-output:*` one.
//!
//! Part 2: the real `Kanata::start_processing_loop` thread, fed through its real channel with real
//! sleeps on time-insensitive configurations, must emit the same ordered OS stream as the stepper.
//!
//! Part 3 (`c07_timed.rs`): the real thread on time-SENSITIVE configurations with enormous margins.
//! How the thread accounts for the time it spent blocked (wake-up timestamp, `last_tick`, ticks
//! executed before / after the event that woke it) exists only in `start_processing_loop`; part 1
//! re-implements it in harness code and part 2 cannot see extra or missing ticks. A timed case is
//! one of 8 feature families (tap-hold x5 variants, one-shot x5, tap-dance lazy+eager, chords v1,
//! chords v2, sequences x3 input modes, caps-word x2, timed outputs: macro / macro-cancel-on-press /
//! hold-for-duration / mwheel) with timeout T from {1200, 1500, 2000} ms, driven for 2 / 3 rounds of
//! "idle wait of T+500..T+1000 ms (thread blocked; in a quarter of the rounds with a plain key held
//! down), a probe whose events are 20..60 ms apart (control probes contain one deliberate wait of
//! T+600 ms), settle". The ordered OS stream must equal the stepper's with the same nominal waits as
//! ticks. The first round's first event always starts the timed action, and scenarios are drawn
//! until the stepper's stream changes when the idle ticks are moved behind the wake event, so every
//! case can tell correct from wrong wake-up accounting. Judged only if the stepper's stream is the
//! same under every timing variation of +-200 ms (a third of the smallest margin) and with events
//! bunched (short waits of 0 ms, what a stall of the processing thread does), and the measured
//! wall-clock gaps stayed within that; a difference is retried once and reported only if it repeats.

#[path = "dcommon.rs"]
pub mod dcommon;
#[path = "c07_timed.rs"]
pub mod timed;

use self::dcommon::{kind_class, ordered_stream};
use crate::core::rng::Rng;
use crate::core::runner::guarded;
use crate::core::sim::{first_diff, osc, render_hist, Ev, FileMap, Out, Sim};
use crate::core::{CaseOut, Check, Ctx};
use crate::gen::{self, Profile, K};
use kanata_keyberon::layout::State;
use serde_json::{json, Value};

pub struct C07Check;
pub static C07: C07Check = C07Check;

// ------------------------------------------------------------------------------------------
// the loop emulator
// ------------------------------------------------------------------------------------------

/// virtual wall clock starts here (so that `t - 1` never underflows)
const T0: u64 = 1;

const FEATS: &[&str] = &[
    "key_state", "layer_state", "custom_state", "fakekey_state", "os_key_down", "os_button_down", "oneshot_keys",
    "dynmacro_recording", "dynmacro_saved", "history_younger_than_1s", "vkey_or_fakerow_state", "input_pause_countdown_pending",
    "os_key_not_backed_by_state", "oneshot_pause_countdown_set",
];

/// kanata's list of output keys of the last tick contains a key that no state of the layout
/// produces (e.g. the key of a macro that was cancelled in this tick; also legitimately: override /
/// unmod outputs)
fn stale_os_key(sim: &Sim) -> bool {
    if sim.k.prev_keys.is_empty() {
        return false;
    }
    let l = sim.k.layout.b();
    sim.k.prev_keys.iter().any(|k| !l.keycodes().any(|c| c == *k))
}

fn feats(sim: &Sim) -> u32 {
    let mut f = 0u32;
    let l = sim.k.layout.b();
    for s in l.states.iter() {
        match s {
            State::NormalKey { coord, .. } => {
                f |= 1;
                if coord.0 != 0 {
                    f |= 1 << 10;
                }
            }
            State::LayerModifier { .. } => f |= 2,
            State::Custom { .. } => f |= 4,
            State::FakeKey { .. } => f |= 8,
            _ => {}
        }
    }
    if !sim.os.keys_down.is_empty() {
        f |= 16;
    }
    if !sim.os.btns_down.is_empty() {
        f |= 32;
    }
    if !l.oneshot.keys.is_empty() {
        f |= 64;
    }
    if sim.k.dynamic_macro_record_state.is_some() {
        f |= 128;
    }
    if !sim.k.dynamic_macros.is_empty() {
        f |= 256;
    }
    if l.historical_keys.iter_hevents().next().map(|h| h.ticks_since_occurrence < 1000).unwrap_or(false) {
        f |= 512;
    }
    if l.oneshot.pause_input_processing_ticks > 0 {
        f |= 1 << 11;
    }
    if stale_os_key(sim) {
        f |= 1 << 12;
    }
    if l.oneshot.ticks_to_ignore_events > 0 {
        f |= FEAT_OS_PAUSE;
    }
    f
}

/// the countdown of `one-shot-pause-processing` is set (state feature at a blocked point)
const FEAT_OS_PAUSE: u32 = 1 << 13;

/// Largest threshold written in any `(key-timing N lt|gt T)` of the configuration text (literal
/// numbers only; None if there is no key-timing test or a threshold is not a literal).
fn max_key_timing_written(cfg: &str) -> Option<u16> {
    let mut max: Option<u16> = None;
    for part in cfg.split("(key-timing").skip(1) {
        let mut it = part.split_whitespace();
        let (_n, _cmp, t) = (it.next()?, it.next()?, it.next()?);
        let t: u16 = t.trim_end_matches(')').parse().ok()?;
        max = Some(max.map_or(t, |m| m.max(t)));
    }
    max
}

/// Emulated repairs used only to *classify* a violation that was already found: L' is L with the
/// loop refusing to block while the suspected pending state exists. If L' and its R' agree, the
/// violation is entirely explained by that cause.
#[derive(Clone, Copy, Default, PartialEq, Debug)]
struct Fix {
    /// keep ticking while keyberon's input-processing pause (rapid-event-delay) counts down
    pause: bool,
    /// one more tick before blocking when an OS key is down that no layout state backs
    stale: bool,
    /// (zippychord configs) keep ticking inside the wall-time intervals `ZExp::tick_in` (the
    /// stretches without a zippy state change that last longer than the 10 000-tick forced reset);
    /// everywhere else the loop sleeps exactly as kanata decides
    zippy: bool,
    /// keep ticking while a one-shot release is due on the next tick (timeout 0, keys present)
    oneshot0: bool,
    /// keep ticking while a dynamic macro is being recorded (the recorder counts ticks as delays)
    recording: bool,
    /// like `stale`, but only when an OS repeat event was handled since the last executed tick
    /// (handling a repeat recomputes the override state and thereby wipes the marker that keeps
    /// kanata awake after an override with override-release-on-activation)
    stale_rep: bool,
    /// keep ticking while the countdown of `one-shot-pause-processing` is set
    os_pause: bool,
    /// keep ticking while the newest typed key is younger than this (the largest key-timing
    /// threshold written in the configuration text; 0 = off)
    key_timing: u16,
}

/// zippychord's forced state reset fires after this many consecutive ticks without a zippy state
/// change (`TICKS_UNTIL_FORCE_STATE_RESET`, documented in findings/C07-zippy-forced-reset-skipped.md)
const ZCH_FORCED_RESET: u64 = 10_000;
/// slack for the off-by-one questions (does the tick of the state change count, wake tick, ...)
const ZCH_MARGIN: u64 = 4;

/// Parameters of the two experiments that decide whether a slept-vs-ticked difference of a
/// zippychord configuration is the known forced-reset defect (see `judge`).
#[derive(Default, Clone)]
struct ZExp {
    /// L' (`Fix::zippy`): wall-time intervals [from, to] in which the loop is kept from blocking
    tick_in: Vec<(u64, u64)>,
    /// R-capped: (start of every stretch without a certain zippy state change, ascending, first
    /// entry 0; number of gap ticks that may still be executed in that stretch). Gap ticks beyond
    /// the budget are slept like L does.
    cap: Option<(Vec<u64>, Vec<u64>)>,
}

/// names (as printed in the output trace) of the keys zippychord passes through without touching
/// its state-change counter
fn zippy_ignored_names() -> &'static std::collections::BTreeSet<String> {
    static S: std::sync::OnceLock<std::collections::BTreeSet<String>> = std::sync::OnceLock::new();
    S.get_or_init(|| {
        (0u16..768)
            .filter(|c| kanata_parser::keys::OsCode::from_u16(*c).map(|o| o.is_zippy_ignored()).unwrap_or(false))
            .map(crate::core::sim::code_name)
            .collect()
    })
}

/// Wall times at which zippychord's state-change counter was certainly reset: every release of a
/// non-ignored key that reached the OS went through `zch_release_key` (or was typed by an
/// activation, whose press reset the counter in the same tick). Presses are not certain (a press
/// while zippy is disabled does not count as state change). Starts with 0 (configuration).
fn sure_resets(trace: &[Out]) -> Vec<u64> {
    let ign = zippy_ignored_names();
    let mut v = vec![0u64];
    for o in trace {
        if o.kind == crate::core::sim::OutKind::Up && !ign.contains(&o.name) && v.last() != Some(&o.at) {
            v.push(o.at);
        }
    }
    v
}

/// stretches [r_i, r_i+1] (the last one open-ended) that are long enough for the forced reset
fn long_stretches(resets: &[u64], t_end: u64) -> Vec<(u64, u64)> {
    let mut v = vec![];
    for (i, r) in resets.iter().enumerate() {
        match resets.get(i + 1) {
            Some(n) => {
                if n - r + ZCH_MARGIN > ZCH_FORCED_RESET {
                    v.push((*r, *n));
                }
            }
            None => {
                if t_end.saturating_sub(*r) + ZCH_MARGIN > ZCH_FORCED_RESET {
                    v.push((*r, u64::MAX));
                }
            }
        }
    }
    v
}

#[derive(Clone, Debug)]
struct Block {
    t: u64,
    gap: u64,
    feats: u32,
    last: bool,
}

#[derive(Default)]
struct RunRes {
    /// the blocking decision taken in every loop iteration
    plan: Vec<bool>,
    /// R only: iterations where R's own predicate disagreed with the decision it replays
    pred_mismatch: u64,
    blocks: Vec<Block>,
    /// R only: outputs observed during gap ticks (index of the blocked point, output)
    gap_out: Vec<(usize, Out)>,
    /// R only: gaps during which the predicate turned false again
    unblocked_in_gap: u64,
    ended_blocked: bool,
    ticks: u64,
    gap_ticks: u64,
    /// virtual wall time at which the run ended
    t_end: u64,
    /// presses handled while a one-shot was active and `one-shot-pause-processing` was (not) counting
    os_press_paused: u64,
    os_press_unpaused: u64,
    /// R only: gaps during whose ticks the `one-shot-pause-processing` countdown moved
    os_pause_ran_in_gap: u64,
}

/// evidence: what state a press meets (the tick that handles it first counts the pause down by one)
fn note_press(sim: &Sim, ev: &Ev, res: &mut RunRes) {
    if let Ev::P(_) = ev {
        let l = sim.k.layout.b();
        if !l.oneshot.keys.is_empty() {
            if l.oneshot.ticks_to_ignore_events > 1 {
                res.os_press_paused += 1;
            } else if l.oneshot.ticks_to_ignore_events == 0 {
                res.os_press_unpaused += 1;
            }
        }
    }
}

fn one_tick(sim: &mut Sim, t: u64) {
    sim.now = t - 1;
    sim.tick();
}

/// Execute the processing loop in virtual time over the arrivals `arr` (virtual time, event).
/// `plan == None`: run L (decisions come from kanata). `plan == Some(p)`: run R (replay p, tick
/// through every slept gap).
fn run_loop(sim: &mut Sim, arr: &[(u64, Ev)], final_gap: u64, spin_bound: u64, plan: Option<&[bool]>, fix: Fix, zx: &ZExp) -> RunRes {
    let mut res = RunRes::default();
    let mut cap = zx.cap.clone();
    let is_r = plan.is_some();
    let mut t = T0;
    let mut last_tick = T0;
    let mut ms_elapsed: u16 = 0;
    let mut next = 0usize;
    let mut it = 0usize;
    let mut spin_after_last = 0u64;
    let mut stale_used = false;
    let mut stale_defer = false;
    // an OS repeat event was handled and no tick has been executed since
    let mut rep_since_tick = false;
    loop {
        res.t_end = t;
        let mut own = sim.k.can_block_update_idle_waiting(ms_elapsed);
        if (fix.stale || fix.stale_rep) && !is_r && !stale_os_key(sim) {
            // the condition is gone: a later occurrence gets its own extra tick
            stale_used = false;
            stale_defer = false;
        }
        if own && !is_r {
            if fix.pause && sim.k.layout.b().oneshot.pause_input_processing_ticks > 0 {
                own = false;
            }
            if (fix.stale || (fix.stale_rep && rep_since_tick)) && !stale_used && stale_os_key(sim) {
                // (spent once a tick has really been executed, see below)
                stale_defer = true;
                own = false;
            }
            if fix.oneshot0 && sim.k.layout.b().oneshot.timeout == 0 && !sim.k.layout.b().oneshot.keys.is_empty() {
                own = false;
            }
            if fix.recording && sim.k.dynamic_macro_record_state.is_some() {
                own = false;
            }
            if fix.os_pause && sim.k.layout.b().oneshot.ticks_to_ignore_events > 0 {
                own = false;
            }
            if fix.key_timing > 0 && sim.k.layout.b().historical_keys.iter_hevents().next().map(|h| h.ticks_since_occurrence < fix.key_timing).unwrap_or(false) {
                own = false;
            }
            if fix.zippy && zx.tick_in.iter().any(|(a, b)| *a <= t && t <= *b) {
                own = false;
            }
        }
        let can_block = match plan {
            Some(p) => {
                let Some(&d) = p.get(it) else { break };
                if d != own {
                    res.pred_mismatch += 1;
                }
                d
            }
            None => own,
        };
        res.plan.push(can_block);
        it += 1;
        if DEBUG.load(std::sync::atomic::Ordering::Relaxed) {
            let l = sim.k.layout.b();
            eprintln!(
                "  [{}{:?}] t={t} pred={own} decision={can_block} ms_elapsed={ms_elapsed} next_ev={:?} os={:?} states={:?} active_seq={} queue={} pause={} prev_keys={:?} cancel_dur={}",
                if is_r { "R" } else { "L" }, fix, arr.get(next), sim.os.keys_down, l.states, l.active_sequences.len(), l.queue.len(), l.oneshot.pause_input_processing_ticks, sim.k.prev_keys, sim.k.macro_on_press_cancel_duration
            );
        }
        if can_block {
            let (gap, ev, last) = match arr.get(next) {
                Some((te, ev)) => (te.saturating_sub(t), Some(ev), false),
                None => (final_gap, None, true),
            };
            let bi = res.blocks.len();
            res.blocks.push(Block { t, gap, feats: feats(sim), last });
            if is_r {
                // tick through the gap instead of sleeping
                let mut turned_false = false;
                let allowed = match cap.as_mut() {
                    Some((starts, budget)) => {
                        let si = starts.partition_point(|r| *r <= t).saturating_sub(1);
                        let a = gap.min(budget.get(si).copied().unwrap_or(0));
                        if let Some(b) = budget.get_mut(si) {
                            *b -= a;
                        }
                        a
                    }
                    None => gap,
                };
                let pause_before = sim.k.layout.b().oneshot.ticks_to_ignore_events;
                for _ in 0..allowed {
                    t += 1;
                    let n0 = sim.trace.len();
                    one_tick(sim, t);
                    res.gap_ticks += 1;
                    if sim.trace.len() > n0 {
                        for o in sim.trace.drain(n0..) {
                            res.gap_out.push((bi, o));
                        }
                    }
                    if !sim.k.can_block_update_idle_waiting(1) {
                        turned_false = true;
                    }
                }
                if turned_false {
                    res.unblocked_in_gap += 1;
                }
                if sim.k.layout.b().oneshot.ticks_to_ignore_events != pause_before {
                    res.os_pause_ran_in_gap += 1;
                }
                // (capped run only) the rest of the gap is slept
                t += gap - allowed;
            } else {
                t += gap;
            }
            match ev {
                Some(ev) => {
                    next += 1;
                    stale_used = false;
                    // wake: last_tick = now - 1 ms; handle the event; exactly one tick
                    sim.now = t;
                    note_press(sim, ev, &mut res);
                    sim.apply(ev);
                    one_tick(sim, t);
                    rep_since_tick = false;
                    res.ticks += 1;
                    last_tick = t;
                    ms_elapsed = 1;
                }
                None => {
                    res.ended_blocked = true;
                    res.t_end = t;
                    break;
                }
            }
        } else {
            let avail = matches!(arr.get(next), Some((te, _)) if *te <= t);
            if avail {
                sim.now = t;
                note_press(sim, &arr[next].1, &mut res);
                sim.apply(&arr[next].1);
                if matches!(arr[next].1, Ev::Rep(_)) {
                    rep_since_tick = true;
                }
                next += 1;
                stale_used = false;
            }
            let e = t - last_tick;
            for _ in 0..e {
                one_tick(sim, t);
                rep_since_tick = false;
                res.ticks += 1;
            }
            if e > 0 && stale_defer {
                stale_defer = false;
                stale_used = true;
            }
            last_tick = t;
            ms_elapsed = e.min(u16::MAX as u64) as u16;
            if !avail {
                // nothing to read: sleep 1 ms
                t += 1;
                if next >= arr.len() {
                    spin_after_last += 1;
                    if plan.is_none() && spin_after_last > spin_bound {
                        break;
                    }
                }
            }
        }
    }
    res
}

fn arrivals(h: &[Ev]) -> Vec<(u64, Ev)> {
    let mut t = T0;
    let mut v = vec![];
    for e in h {
        match e {
            Ev::T(n) => t += *n as u64,
            other => v.push((t, other.clone())),
        }
    }
    v
}

struct Judged {
    l: RunRes,
    r: RunRes,
    ltrace: Vec<Out>,
    rtrace: Vec<Out>,
    /// (signature, description)
    viol: Vec<(String, String)>,
}

/// Run L and R on one (config, history) pair. Err = configuration rejected.
fn judge_raw(cfg: &str, files: &FileMap, h: &[Ev], final_gap: u64, spin_bound: u64, fix: Fix, zx: &ZExp) -> Result<Judged, String> {
    let arr = arrivals(h);
    let mut sim_l = Sim::new_with_files(cfg, files.clone())?;
    let l = run_loop(&mut sim_l, &arr, final_gap, spin_bound, None, fix, zx);
    let ltrace = std::mem::take(&mut sim_l.trace);
    drop(sim_l);
    let mut sim_r = Sim::new_with_files(cfg, files.clone())?;
    let r = run_loop(&mut sim_r, &arr, final_gap, spin_bound, Some(&l.plan), Fix::default(), &ZExp::default());
    let rtrace = std::mem::take(&mut sim_r.trace);
    drop(sim_r);
    let viol = compare(&l, &r, &ltrace, &rtrace);
    Ok(Judged { l, r, ltrace, rtrace, viol })
}

/// the two clauses of the oracle on a pair of runs: (signature, description) of what is violated
fn compare(l: &RunRes, r: &RunRes, ltrace: &[Out], rtrace: &[Out]) -> Vec<(String, String)> {
    let mut viol = vec![];
    // (a redundant release - of something the OS already has up - is ignored by an OS)
    if let Some((bi, o)) = r.gap_out.iter().find(|(_, o)| !o.redundant) {
        let b = &r.blocks[*bi];
        let sig = format!("gap-output:{}", kind_class(&o.kind));
        viol.push((
            sig,
            format!(
                "kanata said it may block at t={} (gap {} ms{}), but ticking through that gap produced output {} ({} outputs in gaps in total)",
                b.t,
                b.gap,
                if b.last { ", end of history" } else { "" },
                o.short(),
                r.gap_out.len()
            ),
        ));
    }
    if let Some(d) = first_diff(ltrace, rtrace) {
        // class of the first differing output
        let fa: Vec<&Out> = ltrace.iter().filter(|o| !o.redundant).collect();
        let fb: Vec<&Out> = rtrace.iter().filter(|o| !o.redundant).collect();
        let mut i = 0;
        while i < fa.len() && i < fb.len() && fa[i].at == fb[i].at && fa[i].kind == fb[i].kind && fa[i].name == fb[i].name && fa[i].in_tick == fb[i].in_tick {
            i += 1;
        }
        let cls = match (fa.get(i), fb.get(i)) {
            (Some(x), Some(y)) => {
                if x.kind == y.kind && x.name == y.name {
                    format!("timing:{}", kind_class(&x.kind))
                } else {
                    format!("content:{}", kind_class(&x.kind))
                }
            }
            (Some(x), None) => format!("only-when-slept:{}", kind_class(&x.kind)),
            (None, Some(y)) => format!("only-when-ticked:{}", kind_class(&y.kind)),
            (None, None) => "unknown".into(),
        };
        // which blocked gap precedes the difference
        let at = fa.get(i).map(|o| o.at).into_iter().chain(fb.get(i).map(|o| o.at)).min().unwrap_or(0);
        let prev_gap = l.blocks.iter().filter(|b| b.gap > 0 && b.t + b.gap <= at).last().map(|b| b.gap).unwrap_or(0);
        let sig = format!("slept-vs-ticked:{cls}");
        viol.push((sig, format!("outputs differ between sleeping through the blocked gaps and ticking through them (slept vs ticked): {d}; the last blocked gap before the difference was {prev_gap} ms")));
    }
    viol
}

/// Is a violation of a zippychord configuration (found by the plain L/R pair `j`) the known
/// defect "the 10 000-tick forced reset does not happen while the loop sleeps"? That defect can
/// only act through ticks that come more than 10 000 ticks after the last zippy state change, so
/// both of the following must hold (each is an experiment on the real code):
///
/// * **needs-the-late-ticks**: run R-capped = R, except that in every stretch between two
///   certain state changes (as L shows them) it executes gap ticks only as long as the total
///   number of ticks in the stretch (L's own + gap ticks) stays below 10 000, and sleeps the rest
///   of the gap like L. The forced reset cannot fire in it; every shorter countdown (wait-enable,
///   chord deadline, anything else) runs as in R. R-capped must agree with L completely.
/// * **only-the-late-stretches**: run L' = L, except that it is kept from blocking inside the
///   stretches (as R shows them) that are longer than 10 000 ms; in all other stretches it sleeps
///   exactly like L. L' and its ticking twin must agree completely.
///
/// A difference that shows with stretches shorter than 10 000 ms fails both; a difference caused by
/// a countdown shorter than 10 000 ticks inside a long stretch fails the first.
fn zippy_forced_reset_explains(cfg: &str, files: &FileMap, h: &[Ev], final_gap: u64, spin_bound: u64, j: &Judged) -> bool {
    let tick_in = long_stretches(&sure_resets(&j.rtrace), j.r.t_end);
    if tick_in.is_empty() {
        return false;
    }
    // R-capped against L
    let starts = sure_resets(&j.ltrace);
    let mut budget = vec![];
    for (i, s) in starts.iter().enumerate() {
        let next = starts.get(i + 1).copied();
        let end = next.unwrap_or(j.l.t_end.max(*s));
        let wall = end - s + 1;
        // a blocked point belongs to the stretch of the last certain state change at or before it
        let slept: u64 = j.l.blocks.iter().filter(|b| b.t >= *s && next.map(|n| b.t < n).unwrap_or(true)).map(|b| b.gap).sum();
        let executed = wall.saturating_sub(slept.min(wall));
        budget.push((ZCH_FORCED_RESET - ZCH_MARGIN).saturating_sub(executed));
    }
    let arr = arrivals(h);
    let Ok(mut sim_c) = Sim::new_with_files(cfg, files.clone()) else { return false };
    let zx = ZExp { tick_in: vec![], cap: Some((starts, budget)) };
    let rc = run_loop(&mut sim_c, &arr, final_gap, spin_bound, Some(&j.l.plan), Fix::default(), &zx);
    let ctrace = std::mem::take(&mut sim_c.trace);
    drop(sim_c);
    if !compare(&j.l, &rc, &j.ltrace, &ctrace).is_empty() {
        return false;
    }
    // L' against its ticking twin
    let zx = ZExp { tick_in, cap: None };
    match judge_raw(cfg, files, h, final_gap, spin_bound, Fix { zippy: true, ..Default::default() }, &zx) {
        Ok(jf) => jf.viol.is_empty(),
        Err(_) => false,
    }
}

/// `judge_raw` without any emulated repair; if that shows a violation, the emulated repairs are
/// tried one at a time (then all together) to see whether one known cause explains everything. In
/// that case the violations are replaced by a single one whose signature names the cause.
fn judge(cfg: &str, files: &FileMap, h: &[Ev], final_gap: u64, spin_bound: u64, zippy: bool) -> Result<Judged, String> {
    let none = ZExp::default();
    let mut j = judge_raw(cfg, files, h, final_gap, spin_bound, Fix::default(), &none)?;
    if j.viol.is_empty() {
        return Ok(j);
    }
    let known = |j: &mut Judged, name: &str, how: &str| {
        let first = j.viol[0].clone();
        // (the two `blocked-while:*` causes are not known defects of the unchanged tree: they name the
        // time-driven state that was pending when kanata decided to block)
        let sig = if name.starts_with("blocked-while:") { name.to_string() } else { format!("known-cause:{name}") };
        j.viol = vec![(sig, format!("{} [{}] — {how} ({name})", first.1, first.0))];
    };
    let mut tries: Vec<(&str, Fix)> = vec![("input-pause-countdown-frozen", Fix { pause: true, ..Default::default() })];
    if cfg.contains("override-release-on-activation yes") && cfg.contains("(defoverrides") {
        // narrower than the next one, therefore tried first
        tries.push(("override-release-marker-cleared-by-os-repeat", Fix { stale_rep: true, ..Default::default() }));
    }
    tries.extend_from_slice(&[
        ("cancelled-macro-key-stale", Fix { stale: true, ..Default::default() }),
        ("oneshot-release-due-with-zero-delay", Fix { oneshot0: true, ..Default::default() }),
        ("dynamic-macro-recorder-delay-frozen", Fix { recording: true, ..Default::default() }),
    ]);
    if zippy {
        tries.push(("zippy-forced-reset-skipped", Fix { zippy: true, ..Default::default() }));
    }
    // (only if the countdown was seen moving during the ticks of a gap kanata had declared
    // blockable: while it is frozen, refusing to block on it would keep the loop awake for ever and
    // "explain" anything)
    if j.r.os_pause_ran_in_gap > 0 {
        tries.push(("blocked-while:oneshot-pause-countdown-set", Fix { os_pause: true, ..Default::default() }));
    }
    if let Some(m) = max_key_timing_written(cfg).filter(|m| *m > 0) {
        tries.push(("blocked-while:typed-key-younger-than-a-key-timing-threshold", Fix { key_timing: m, ..Default::default() }));
    }
    // (the zippychord experiment is not part of "several": it is only meaningful on its own)
    tries.push(("several", Fix { pause: true, stale: true, zippy: false, oneshot0: true, recording: true, stale_rep: false, os_pause: false, key_timing: 0 }));
    for (name, fix) in tries {
        if fix.zippy {
            if zippy_forced_reset_explains(cfg, files, h, final_gap, spin_bound, &j) {
                known(
                    &mut j,
                    name,
                    "needs ticks that come more than 10000 ticks after the last zippychord state change: disappears when the ticking run is capped below that, and when the loop is kept from blocking in exactly the stretches longer than that",
                );
                return Ok(j);
            }
            continue;
        }
        if let Ok(jf) = judge_raw(cfg, files, h, final_gap, spin_bound, fix, &none) {
            if jf.viol.is_empty() {
                known(&mut j, name, "disappears when the loop is kept from blocking while that state is pending");
                return Ok(j);
            }
        }
    }
    Ok(j)
}

/// Greedy minimisation of the history of a violating pair (same signature kept).
fn minimise(cfg: &str, files: &FileMap, h: &[Ev], final_gap: u64, spin_bound: u64, zippy: bool, sig: &str) -> Vec<Ev> {
    let still = |h: &[Ev]| -> bool { judge(cfg, files, h, final_gap, spin_bound, zippy).map(|j| j.viol.iter().any(|v| v.0 == sig)).unwrap_or(false) };
    let mut h = h.to_vec();
    let mut budget = 150;
    let mut progress = true;
    while progress && budget > 0 {
        progress = false;
        let mut i = 0;
        while i < h.len() && budget > 0 {
            let mut cand = h.clone();
            let removed = cand.remove(i);
            let mut try_it = true;
            match removed {
                Ev::P(k) => match cand.iter().skip(i).position(|e| *e == Ev::R(k)) {
                    Some(j) => {
                        cand.remove(i + j);
                    }
                    None => try_it = false,
                },
                Ev::R(_) => try_it = false,
                _ => {}
            }
            budget -= 1;
            if try_it && still(&cand) {
                h = cand;
                progress = true;
                continue;
            }
            if let Ev::T(n) = h[i] {
                if n > 1 {
                    let mut cand = h.clone();
                    cand[i] = Ev::T(n / 2);
                    budget -= 1;
                    if still(&cand) {
                        h = cand;
                        progress = true;
                        continue;
                    }
                }
            }
            i += 1;
        }
    }
    h
}

// ------------------------------------------------------------------------------------------
// workload
// ------------------------------------------------------------------------------------------

#[derive(Clone, Debug, Default)]
struct Shaped {
    feature: &'static str,
    text: String,
    files: Vec<(String, String)>,
    keys: Vec<String>,
    numbers: Vec<u64>,
    red: u64,
    zippy: bool,
    /// zippy-reenable family: (idle-reactivate-time, on-first-press-chord-deadline) in effect
    zr: Option<(u64, u64)>,
    /// oneshot-pause / key-timing-lt families: parameters of the scripted histories
    script: Option<Script>,
}

/// Parameters of the two scripted families that walk a time-driven state which is alive while
/// nothing else is pending.
#[derive(Clone, Debug)]
enum Script {
    /// `one-shot-pause-processing n` reachable through key p (placement `place`) and through the
    /// release of the layer key l; one-shot keys o (timeout t1) and q (timeout t2)
    Op { n: u64, t1: u64, t2: u64, place: &'static str },
    /// switch keys s and u with key-timing tests; `thr` = the threshold that decides key s (as
    /// written), `shape` says which kind of threshold is the largest of the configuration
    Kt { thr: u64, shape: &'static str, form: &'static str },
}

const OP_PLACES: &[&str] = &["own-key", "in-multi", "vkey-on-press", "vkey-on-release"];
const OP_OPENINGS: &[&str] = &["pause-key-tap", "pause-key-tap", "layer-key-tap", "pause-then-typing", "one-shot-then-layer-release", "none"];
const KT_SHAPES: &[&str] = &["lt-only", "lt-only", "lt-above-gt", "lt-above-gt", "gt-above-lt", "lt-equals-gt"];
const KT_FORMS: &[&str] = &["plain", "plain", "less-than", "and", "or", "not", "older-key"];

const FAMILIES: &[&str] = &[
    "tap-hold", "one-shot", "tap-dance", "chords-v1", "chords-v2", "macro", "sequence", "caps-word", "hold-for-duration",
    "on-idle", "mouse-repeat", "switch-key-timing", "zippychord", "dynamic-macro", "mixed", "pause-and-repress",
    "zippy-reenable", "oneshot-pause", "key-timing-lt",
];

fn shaped(rng: &mut Rng, fam: usize) -> Shaped {
    let t = *rng.pick(&[2u64, 5, 20, 50, 200]);
    let t2 = *rng.pick(&[1u64, 3, 20, 60, 300]);
    let red = *rng.pick(&[5u64, 5, 0, 1, 20]);
    let conc = rng.coin();
    let mut s = Shaped { feature: FAMILIES[fam], red, numbers: vec![t, t2, red], ..Default::default() };
    let ks = |v: &[&str]| v.iter().map(|x| x.to_string()).collect::<Vec<_>>();
    let defcfg = |extra: &str| format!("(defcfg process-unmapped-keys yes rapid-event-delay {red}{}{extra})\n", if conc { " concurrent-tap-hold yes" } else { "" });
    match FAMILIES[fam] {
        "tap-hold" => {
            let v1 = *rng.pick(&["tap-hold", "tap-hold-press", "tap-hold-release"]);
            let rp = *rng.pick(&[0u64, t, 2 * t, t2]);
            s.numbers.push(rp);
            let b = match rng.usize(4) {
                0 => format!("(tap-hold-release-timeout {t2} {t2} q w e)"),
                1 => format!("(tap-hold-press-timeout {t2} {t2} q w e)"),
                2 => format!("(tap-hold-release-keys {t2} {t2} q w (c))"),
                _ => format!("(tap-hold-except-keys {t2} {t2} q w (c))"),
            };
            s.keys = ks(&["a", "b", "c", "d"]);
            s.text = format!("{}(defsrc a b c d)\n(deflayer l0 ({v1} {rp} {t} x y) {b} c lsft)\n", defcfg(""));
        }
        "one-shot" => {
            let v = *rng.pick(&["one-shot", "one-shot-press", "one-shot-release", "one-shot-press-pcancel", "one-shot-release-pcancel"]);
            s.keys = ks(&["a", "b", "c", "d"]);
            s.text = format!("{}(defsrc a b c d)\n(deflayer l0 ({v} {t} lsft) ({v} {t2} (layer-while-held l1)) c (one-shot {t} C-S-x))\n(deflayer l1 1 2 3 4)\n", defcfg(""));
        }
        "tap-dance" => {
            s.keys = ks(&["a", "b", "c"]);
            s.text = format!("{}(defsrc a b c)\n(deflayer l0 (tap-dance {t} (x y z)) (tap-dance-eager {t2} (q w e)) c)\n", defcfg(""));
        }
        "chords-v1" => {
            s.keys = ks(&["a", "b", "c", "d"]);
            s.text = format!("{}(defsrc a b c d)\n(defchords cg {t} (k0) x (k1) y (k2) z (k0 k1) q (k0 k1 k2) w)\n(deflayer l0 (chord cg k0) (chord cg k1) (chord cg k2) d)\n", defcfg(""));
        }
        "chords-v2" => {
            let mi = *rng.pick(&[5u64, 20, 100, 300]);
            s.numbers.push(mi);
            s.keys = ks(&["a", "b", "c", "d"]);
            s.text = format!(
                "(defcfg process-unmapped-keys yes concurrent-tap-hold yes rapid-event-delay {red}{})\n(defsrc a b c d)\n(deflayer l0 a b c d)\n(defchordsv2\n  (a b) x {t} all-released ()\n  (b c) y {t2} first-release ()\n  (a b c) (macro q 5 w) {t} first-release ())\n",
                if rng.coin() { format!(" chords-v2-min-idle {mi}") } else { String::new() }
            );
        }
        "macro" => {
            s.keys = ks(&["a", "b", "c", "d", "e"]);
            s.text = format!(
                "{}(defsrc a b c d e)\n(deflayer l0 (macro x {t} y {t2} S-(z 3 q)) (macro-repeat w {t}) (macro-cancel-on-press x {t} y {t} z) (macro-release-cancel 1 {t2} 2 {t2} 3) e)\n",
                defcfg("")
            );
        }
        "sequence" => {
            let mode = *rng.pick(&["visible-backspaced", "hidden-suppressed", "hidden-delay-type"]);
            s.keys = ks(&["s", "a", "b", "c", "d"]);
            s.text = format!(
                "{}(defsrc s a b c d)\n(defvirtualkeys v0 (macro q) v1 (macro w 5 e))\n(deflayer l0 sldr a b c (sequence {t2} {mode}))\n(defseq v0 (a b) v1 (b c a))\n",
                defcfg(&format!(" sequence-timeout {t} sequence-input-mode {mode}"))
            );
        }
        "caps-word" => {
            let a = match rng.usize(4) {
                0 => format!("(caps-word {t})"),
                1 => format!("(caps-word-toggle {t})"),
                2 => format!("(caps-word-custom {t} (a b) (1 spc))"),
                _ => format!("(caps-word-custom-toggle {t} (a b) (1))"),
            };
            s.keys = ks(&["w", "a", "b", "1", "spc"]);
            s.text = format!("{}(defsrc w a b 1 spc)\n(deflayer l0 {a} a b 1 spc)\n", defcfg(""));
        }
        "hold-for-duration" => {
            s.keys = ks(&["a", "b", "c"]);
            s.text = format!("{}(defsrc a b c)\n(defvirtualkeys v0 lctl v1 (macro x 10 y))\n(deflayer l0 (hold-for-duration {t} v0) b (hold-for-duration {t2} v1))\n", defcfg(""));
        }
        "on-idle" => {
            s.keys = ks(&["a", "b", "c"]);
            s.text = format!(
                "{}(defsrc a b c)\n(defvirtualkeys v0 x v1 lsft)\n(deflayer l0 (multi a (on-idle {t} tap-vkey v0)) b (multi (on-press press-vkey v1) (on-idle {t2} release-vkey v1)))\n",
                defcfg("")
            );
        }
        "mouse-repeat" => {
            s.keys = ks(&["a", "b", "c", "d", "e"]);
            let extra = format!("{}{}", if rng.coin() { " movemouse-smooth-diagonals yes" } else { "" }, if rng.coin() { " movemouse-inherit-accel-state yes" } else { "" });
            s.text = format!(
                "{}(defsrc a b c d e)\n(deflayer l0 (mwheel-up {t} 120) (movemouse-left {t} 5) (movemouse-accel-up {t2} {t} 1 10) mlft (mwheel-right {t2} 120))\n",
                defcfg(&extra)
            );
        }
        "switch-key-timing" => {
            let big = *rng.pick(&[t, 255, 256, 300, 2303, 2304, 5000]);
            s.numbers.push(big);
            s.keys = ks(&["a", "b", "c", "d"]);
            s.text = format!(
                "{}(defsrc a b c d)\n(deflayer l0 (switch ((key-timing 1 lt {big})) x break () y break) b (switch ((key-timing 2 gt {t2})) z break () w break) (switch ((key-timing 1 gt {big})) q break ((key-timing 1 less-than {t2})) e break () r break))\n",
                defcfg("")
            );
        }
        "zippychord" => {
            s.zippy = true;
            s.keys = ks(&["d", "y", "1", "a", "spc"]);
            let opts = match rng.usize(3) {
                0 => String::new(),
                1 => format!(" on-first-press-chord-deadline {t} idle-reactivate-time {t2}"),
                _ => format!(" on-first-press-chord-deadline {} idle-reactivate-time {} smart-space full", t * 10, t2 * 10),
            };
            s.numbers.extend_from_slice(&[t * 10, t2 * 10, 500]);
            s.text = format!("(defcfg process-unmapped-keys yes)\n(defsrc d y 1 a spc)\n(deflayer l0 d y 1 a spc)\n(defzippy zfile{opts})\n");
            s.files = vec![("zfile".into(), "dy\tday\ndy 1\tMonday\nya\tyes\n".into())];
        }
        "zippy-reenable" => {
            // zippychord's own countdowns: idle-reactivate-time (wait-enable after non-chord
            // typing) and on-first-press-chord-deadline, over several chord files and option sets
            s.zippy = true;
            s.keys = ks(&["d", "y", "1", "a", "x", "spc", "lsft"]);
            let react = *rng.pick(&[0u64, 0, 5, 20, 50, 200, 700, 3000]);
            let deadline = *rng.pick(&[0u64, 0, 20, 50, 200, 2000]);
            let mut opts = String::new();
            if deadline > 0 {
                opts.push_str(&format!(" on-first-press-chord-deadline {deadline}"));
            }
            if react > 0 {
                opts.push_str(&format!(" idle-reactivate-time {react}"));
            }
            match rng.usize(4) {
                0 => opts.push_str(" smart-space add-space-only"),
                1 => opts.push_str(" smart-space full"),
                _ => {}
            }
            let react = if react == 0 { 500 } else { react };
            let deadline = if deadline == 0 { 500 } else { deadline };
            s.zr = Some((react, deadline));
            s.numbers = vec![react, deadline];
            s.text = format!("(defcfg process-unmapped-keys yes)\n(defsrc d y 1 a x spc lsft)\n(deflayer l0 d y 1 a x spc lsft)\n(defzippy zfile{opts})\n");
            let file = match rng.usize(3) {
                0 => "dy\tday\ndy 1\tMonday\nya\tyes\n",
                1 => "dy\tday\n",
                _ => "dy\tday\ndya\tdaily\ndy 1\tMonday\n 1\tone\n",
            };
            s.files = vec![("zfile".into(), file.into())];
        }
        "oneshot-pause" => {
            // one-shot-pause-processing started while no one-shot is active (own key, inside multi,
            // through a virtual key on press / on release, through the release of a layer key as in
            // the documented set-up), one-shot keys of every variant whose timeouts lie on both sides
            // of the pause time
            let n = *rng.pick(&[5u64, 20, 50, 200, 300, 1000]);
            let t1 = *rng.pick(&[n / 2 + 1, 2 * n, 2 * n, 2000, 2000]);
            let t2 = *rng.pick(&[n + 1, 3 * n, 2000]);
            let v1 = *rng.pick(&["one-shot", "one-shot-press", "one-shot-release", "one-shot-press-pcancel", "one-shot-release-pcancel"]);
            let v2 = *rng.pick(&["one-shot", "one-shot-press", "one-shot-release"]);
            let place = *rng.pick(OP_PLACES);
            let pause = match place {
                "own-key" => format!("(one-shot-pause-processing {n})"),
                "in-multi" => format!("(multi z (one-shot-pause-processing {n}))"),
                "vkey-on-press" => "(on-press tap-vkey vp)".to_string(),
                _ => "(on-release tap-vkey vp)".to_string(),
            };
            s.script = Some(Script::Op { n, t1, t2, place });
            s.numbers = vec![n, t1, t2, red];
            s.keys = ks(&["p", "o", "q", "c", "d", "l"]);
            s.text = format!(
                "{}(defsrc p o q c d l)\n(defvirtualkeys vp (one-shot-pause-processing {n}))\n(deflayer l0 {pause} ({v1} {t1} lsft) ({v2} {t2} (layer-while-held l2)) c d (multi (layer-while-held l1) (on-release tap-vkey vp)))\n(deflayer l1 1 ({v1} {t1} lctl) 3 4 5 _)\n(deflayer l2 6 7 8 9 0 _)\n",
                defcfg("")
            );
        }
        "key-timing-lt" => {
            // switch key-timing where the LARGEST threshold of the configuration is (or is not) a
            // less-than test - the typing-streak idiom: no greater-than at all, a smaller one, a
            // larger one (control), the same
            let thr = *rng.pick(&[t.max(3), 50, 200, 255, 256, 300, 1000, 2303, 2304, 5000]);
            let shape = *rng.pick(KT_SHAPES);
            let form = *rng.pick(KT_FORMS);
            let lt = *rng.pick(&["lt", "less-than"]);
            let small = *rng.pick(&[1u64, 2, thr / 2]).max(&1);
            let cond = match form {
                "plain" => format!("((key-timing 1 lt {thr}))"),
                "less-than" => format!("((key-timing 1 less-than {thr}))"),
                "and" => format!("((and (key-timing 1 {lt} {thr}) (key-timing 2 {lt} {})))", thr + *rng.pick(&[0u64, 1, 100])),
                "or" => format!("((or (key-timing 1 {lt} {small}) (key-timing 1 {lt} {thr})))"),
                "not" => format!("((not (key-timing 1 {lt} {thr})))"),
                _ => format!("((key-timing 2 {lt} {thr}))"),
            };
            let second = match shape {
                "lt-only" => format!("(switch ((key-timing 1 {lt} {small})) z fallthrough ((key-timing 3 {lt} {thr})) w break () v break)"),
                "lt-above-gt" => format!("(switch ((key-timing 1 gt {small})) z break () w break)"),
                "gt-above-lt" => format!("(switch ((key-timing 1 gt {})) z break () w break)", thr + *rng.pick(&[1u64, 50, 1000])),
                _ => format!("(switch ((key-timing 1 gt {thr})) z break () w break)"),
            };
            let wrap = rng.coin();
            s.script = Some(Script::Kt { thr, shape, form });
            s.numbers = vec![thr, small, red];
            s.keys = ks(&["a", "b", "s", "u"]);
            s.text = if wrap {
                format!("{}(defsrc a b s u)\n(defalias sw (switch {cond} x break () y break))\n(deflayer l0 a b @sw {second})\n", defcfg(""))
            } else {
                format!("{}(defsrc a b s u)\n(deflayer l0 a b (switch {cond} x break () y break) {second})\n", defcfg(""))
            };
        }
        "dynamic-macro" => {
            let beh = *rng.pick(&["constant", "recorded"]);
            s.keys = ks(&["r", "s", "p", "a", "b"]);
            s.text = format!(
                "{}(defsrc r s p a b)\n(deflayer l0 (dynamic-macro-record 1) dynamic-macro-record-stop (dynamic-macro-play 1) a (tap-hold {t} {t} b lsft))\n",
                defcfg(&format!(" dynamic-macro-replay-delay-behaviour {beh}"))
            );
        }
        "mixed" => {
            s.keys = ks(&["a", "b", "c", "d", "e", "f"]);
            s.text = format!(
                "{}(defsrc a b c d e f)\n(defvirtualkeys v0 rctl)\n(deflayer l0 (tap-hold {t} {t} a (layer-while-held l1)) (one-shot {t2} lsft) (macro x {t} y) (caps-word {t2}) (mwheel-down {t} 120) (multi f (hold-for-duration {t2} v0)))\n(deflayer l1 1 2 3 4 5 (tap-dance {t} (6 7)))\n",
                defcfg("")
            );
        }
        _ => {
            // one-shot-pause-processing, tap-hold re-press window, rapid event delay
            s.keys = ks(&["a", "b", "c"]);
            s.text = format!("{}(defsrc a b c)\n(deflayer l0 (multi (one-shot-pause-processing {t}) a) (tap-hold {t2} {t} b lalt) (multi lctl (tap-hold-press {t} {t2} c ralt)))\n", defcfg(""));
        }
    }
    s
}

fn gap_pools(numbers: &[u64]) -> (Vec<u32>, Vec<u32>) {
    let mut small: Vec<u32> = vec![0, 0, 0, 1, 1, 2, 3, 7];
    // weighted: very long gaps are expensive for the ticking run
    let mut big: Vec<u32> = vec![1000, 1000, 1000, 1000, 1000, 1000, 10_001, 10_001, 10_001, 70_000, 70_000];
    for &n in numbers.iter().take(10) {
        if n == 0 || n > 65_535 {
            continue;
        }
        let n = n as u32;
        let v = [n - 1, n, n + 1];
        if n <= 3000 {
            small.extend_from_slice(&v);
        } else {
            big.extend_from_slice(&v);
        }
    }
    (small, big)
}

/// physically consistent history with a bounded number of very long gaps
fn gen_hist(rng: &mut Rng, keys: &[u16], n_events: usize, small: &[u32], big: &[u32], mut big_budget: usize, repeats: bool) -> Vec<Ev> {
    let mut h = vec![];
    let mut down: Vec<u16> = vec![];
    let mut gap = |rng: &mut Rng, h: &mut Vec<Ev>| {
        let g = if big_budget > 0 && rng.chance(1, 6) {
            big_budget -= 1;
            *rng.pick(big)
        } else {
            *rng.pick(small)
        };
        if g > 0 {
            h.push(Ev::T(g));
        }
    };
    for _ in 0..n_events {
        let can_press = down.len() < keys.len();
        let do_press = if down.is_empty() { true } else if !can_press { false } else { rng.chance(55, 100) };
        if repeats && !down.is_empty() && rng.chance(1, 10) {
            let k = *rng.pick(&down);
            h.push(Ev::Rep(k));
        } else if do_press {
            let ups: Vec<u16> = keys.iter().copied().filter(|k| !down.contains(k)).collect();
            let k = *rng.pick(&ups);
            down.push(k);
            h.push(Ev::P(k));
        } else {
            let i = rng.usize(down.len());
            let k = down.remove(i);
            h.push(Ev::R(k));
        }
        gap(rng, &mut h);
    }
    rng.shuffle(&mut down);
    for k in down {
        h.push(Ev::R(k));
        gap(rng, &mut h);
    }
    h
}

/// a scripted opening for some families so that the interesting state exists before random input
fn scripted_prefix(rng: &mut Rng, s: &Shaped) -> Vec<Ev> {
    let k = |n: &str| osc(n);
    let tap = |h: &mut Vec<Ev>, n: &str, hold: u32| {
        h.push(Ev::P(k(n)));
        if hold > 0 {
            h.push(Ev::T(hold));
        }
        h.push(Ev::R(k(n)));
    };
    let mut h = vec![];
    let g = *rng.pick(&[0u32, 1, 5, 30, 300, 1000, 1000, 10_001, 10_001, 70_000]);
    match s.feature {
        "dynamic-macro" => {
            tap(&mut h, "r", 2);
            h.push(Ev::T(*rng.pick(&[3u32, 20, 300])));
            tap(&mut h, "a", *rng.pick(&[1u32, 10, 100]));
            h.push(Ev::T(*rng.pick(&[0u32, 7, 400])));
            tap(&mut h, "b", *rng.pick(&[1u32, 10, 300]));
            h.push(Ev::T(5));
            tap(&mut h, "s", 2);
            h.push(Ev::T(g));
            tap(&mut h, "p", 3);
            h.push(Ev::T(*rng.pick(&[0u32, 1, 50, 2000, 2000, 10_001])));
        }
        "zippychord" => {
            // dy -> day, released; a follow-up chord (dy 1 -> Monday) is then possible
            h.push(Ev::P(k("d")));
            h.push(Ev::T(3));
            h.push(Ev::P(k("y")));
            h.push(Ev::T(10));
            h.push(Ev::R(k("d")));
            h.push(Ev::R(k("y")));
            h.push(Ev::T(g));
            if rng.coin() {
                tap(&mut h, "1", 5);
                h.push(Ev::T(30));
            }
        }
        "sequence" => {
            tap(&mut h, "s", 2);
            h.push(Ev::T(*rng.pick(&[0u32, 1, 3])));
            tap(&mut h, "a", 2);
            h.push(Ev::T(g.min(1000)));
        }
        "caps-word" => {
            tap(&mut h, "w", 3);
            h.push(Ev::T(*rng.pick(&[1u32, 5, 30])));
            tap(&mut h, "a", 3);
            h.push(Ev::T(g));
        }
        _ => {}
    }
    h
}

/// One probe of a zippy-reenable history: an opening that puts zippychord into some state, an idle
/// gap, then a chord attempt. Indices are positions in the history.
#[derive(Clone, Debug)]
struct ZrMark {
    opening: &'static str,
    /// the opening ends with zippychord waiting to be re-enabled (non-chord typing, all released)
    disturbs: bool,
    gap: u64,
    split: bool,
    /// the second key of the chord attempt comes around on-first-press-chord-deadline after the
    /// first (the deadline runs while a key is held and nothing else happens)
    late_second: bool,
    /// history index at which the idle gap starts
    gap_from: usize,
    /// history index of the first event of the chord attempt / one past its last event
    probe_from: usize,
    probe_to: usize,
}

const ZR_OPENINGS: &[&str] = &["nonchord-tap", "subset-key-tap", "rolled-nonchords", "deadline-expiry", "chord-activation", "ignored-key-tap", "none"];

/// non-chord typing (or a chord, or nothing), an idle gap around idle-reactivate-time, then a chord
/// attempt; 1..=3 rounds
fn zr_hist(rng: &mut Rng, react: u64, deadline: u64) -> (Vec<Ev>, Vec<ZrMark>) {
    let k = |n: &str| osc(n);
    let mut h: Vec<Ev> = vec![];
    let mut marks = vec![];
    let t = |h: &mut Vec<Ev>, n: u64| {
        if n > 0 {
            h.push(Ev::T(n as u32));
        }
    };
    let tap = |h: &mut Vec<Ev>, n: &str, hold: u64| {
        h.push(Ev::P(k(n)));
        if hold > 0 {
            h.push(Ev::T(hold as u32));
        }
        h.push(Ev::R(k(n)));
    };
    let rounds = 1 + rng.usize(3);
    for _ in 0..rounds {
        let opening = *rng.pick(ZR_OPENINGS);
        let mut disturbs = true;
        match opening {
            "nonchord-tap" => tap(&mut h, *rng.pick(&["x", "spc"]), *rng.pick(&[0u64, 1, 10, 40])),
            "subset-key-tap" => tap(&mut h, *rng.pick(&["d", "y", "a"]), *rng.pick(&[0u64, 1, 10])),
            "rolled-nonchords" => {
                h.push(Ev::P(k("x")));
                t(&mut h, *rng.pick(&[0u64, 2, 15]));
                h.push(Ev::P(k("spc")));
                t(&mut h, *rng.pick(&[1u64, 5]));
                h.push(Ev::R(k("x")));
                t(&mut h, *rng.pick(&[0u64, 3, 30]));
                h.push(Ev::R(k("spc")));
            }
            "deadline-expiry" => {
                let d = (deadline as i64 + *rng.pick(&[-1i64, 0, 1, 2, 10])).max(1) as u64;
                tap(&mut h, "d", d);
            }
            "chord-activation" => {
                disturbs = false;
                h.push(Ev::P(k("d")));
                t(&mut h, *rng.pick(&[0u64, 1, 3]));
                h.push(Ev::P(k("y")));
                t(&mut h, *rng.pick(&[1u64, 10]));
                h.push(Ev::R(k("d")));
                t(&mut h, *rng.pick(&[0u64, 1]));
                h.push(Ev::R(k("y")));
            }
            "ignored-key-tap" => {
                disturbs = false;
                tap(&mut h, "lsft", 5);
            }
            _ => disturbs = false,
        }
        // idle gap: around the reactivation time, everything below the forced reset; a few above
        let r = react;
        let mut pool: Vec<u64> = vec![0, 1, r / 2, r.saturating_sub(2), r.saturating_sub(1), r, r + 1, r + 2, r + 3, 2 * r, 3 * r + 7, 1000, 3000, 6000, 9000, 9990];
        pool.retain(|g| *g < ZCH_FORCED_RESET - 5);
        let gap = if rng.chance(1, 10) { *rng.pick(&[10_001u64, 12_000, 70_000]) } else { *rng.pick(&pool) };
        // sometimes the gap is interrupted by a key zippychord ignores: the loop wakes up, the
        // countdowns must go on
        let gap_from = h.len();
        let split = gap >= 8 && rng.chance(1, 4);
        if split {
            let g1 = 1 + rng.below(gap - 6);
            t(&mut h, g1);
            tap(&mut h, "lsft", 2);
            t(&mut h, gap - g1 - 2);
        } else {
            t(&mut h, gap);
        }
        let probe_from = h.len();
        let shifted = rng.chance(1, 6);
        if shifted {
            h.push(Ev::P(k("lsft")));
            t(&mut h, 2);
        }
        let (a, b) = *rng.pick(&[("d", "y"), ("y", "d"), ("d", "y"), ("y", "a")]);
        h.push(Ev::P(k(a)));
        let late_second = rng.chance(1, 4);
        if late_second {
            t(&mut h, (deadline as i64 + *rng.pick(&[-2i64, -1, 0, 1, 2, 10])).max(1) as u64);
        } else {
            t(&mut h, *rng.pick(&[0u64, 1, 3, 10]));
        }
        h.push(Ev::P(k(b)));
        t(&mut h, *rng.pick(&[1u64, 5, 20]));
        h.push(Ev::R(k(a)));
        t(&mut h, *rng.pick(&[0u64, 1, 4]));
        h.push(Ev::R(k(b)));
        if shifted {
            t(&mut h, 1);
            h.push(Ev::R(k("lsft")));
        }
        let probe_to = h.len();
        marks.push(ZrMark { opening, disturbs, gap, split, late_second, gap_from, probe_from, probe_to });
        // a follow-up key or nothing, then a pause before the next round
        if rng.coin() {
            t(&mut h, *rng.pick(&[1u64, 10, 100]));
            tap(&mut h, "1", 3);
        }
        t(&mut h, *rng.pick(&[0u64, 1, 30, r + 5, 1500]));
    }
    (h, marks)
}

/// One round of a scripted history of the oneshot-pause / key-timing-lt families.
#[derive(Clone, Debug)]
struct ScMark {
    opening: &'static str,
    /// nominal idle gap between the opening and the probe
    gap: u64,
    /// the number the gap is to be compared with (pause time / key-timing threshold)
    against: u64,
    gap_from: usize,
    probe_from: usize,
    probe_to: usize,
}

/// oneshot-pause: 1..=3 rounds of [opening that starts the pause with or without a one-shot active |
/// nothing], idle gap around the pause time, one-shot key, then two taps of a plain key at
/// distances around the pause time, settle.
fn op_hist(rng: &mut Rng, n: u64, t1: u64, t2: u64) -> (Vec<Ev>, Vec<ScMark>) {
    let k = |n: &str| osc(n);
    let mut h: Vec<Ev> = vec![];
    let mut marks = vec![];
    let t = |h: &mut Vec<Ev>, n: u64| {
        if n > 0 {
            h.push(Ev::T(n as u32));
        }
    };
    let tap = |h: &mut Vec<Ev>, n: &str, hold: u64| {
        h.push(Ev::P(k(n)));
        if hold > 0 {
            h.push(Ev::T(hold as u32));
        }
        h.push(Ev::R(k(n)));
    };
    let rounds = 1 + rng.usize(3);
    for _ in 0..rounds {
        let opening = *rng.pick(OP_OPENINGS);
        match opening {
            "pause-key-tap" => tap(&mut h, "p", *rng.pick(&[0u64, 1, 5, 30])),
            "layer-key-tap" => tap(&mut h, "l", *rng.pick(&[1u64, 5, 30])),
            "pause-then-typing" => {
                tap(&mut h, "p", *rng.pick(&[1u64, 5]));
                t(&mut h, *rng.pick(&[1u64, 5, 20]));
                tap(&mut h, *rng.pick(&["c", "d"]), *rng.pick(&[1u64, 5]));
            }
            "one-shot-then-layer-release" => {
                // the documented use: the pause starts while the one-shot is active
                h.push(Ev::P(k("l")));
                t(&mut h, *rng.pick(&[1u64, 5, 20]));
                tap(&mut h, "o", *rng.pick(&[1u64, 5]));
                t(&mut h, *rng.pick(&[1u64, 5]));
                h.push(Ev::R(k("l")));
            }
            _ => {}
        }
        let mut pool: Vec<u64> = vec![0, 1, 7, n / 2, n.saturating_sub(1), n, n + 1, 2 * n, 2 * n + 40, 1000, 1000, 3000];
        if rng.chance(1, 12) {
            pool = vec![10_001, 70_000];
        }
        let gap = *rng.pick(&pool);
        let gap_from = h.len();
        t(&mut h, gap);
        let probe_from = h.len();
        let (os, tos) = if rng.chance(3, 4) { ("o", t1) } else { ("q", t2) };
        tap(&mut h, os, *rng.pick(&[1u64, 3, 10]));
        t(&mut h, *rng.pick(&[1u64, 5, 20]));
        let plain = *rng.pick(&["c", "c", "d"]);
        tap(&mut h, plain, *rng.pick(&[1u64, 5]));
        t(&mut h, *rng.pick(&[2u64, 5, n / 2, n.saturating_sub(1).max(1), n, n + 1]));
        tap(&mut h, plain, *rng.pick(&[1u64, 5]));
        let probe_to = h.len();
        marks.push(ScMark { opening, gap, against: n, gap_from, probe_from, probe_to });
        t(&mut h, *rng.pick(&[1u64, 30, tos + 5, tos + n + 5, 1500]));
    }
    (h, marks)
}

/// key-timing-lt: 1..=3 rounds of [1..3 plain keys typed], everything released, idle gap around
/// the threshold (as written and as stored after compression), a switch key tapped, sometimes
/// tapped again at once (a young key), pause.
fn kt_hist(rng: &mut Rng, thr: u64) -> (Vec<Ev>, Vec<ScMark>) {
    let k = |n: &str| osc(n);
    let mut h: Vec<Ev> = vec![];
    let mut marks = vec![];
    let t = |h: &mut Vec<Ev>, n: u64| {
        if n > 0 {
            h.push(Ev::T(n as u32));
        }
    };
    let tap = |h: &mut Vec<Ev>, n: &str, hold: u64| {
        h.push(Ev::P(k(n)));
        if hold > 0 {
            h.push(Ev::T(hold as u32));
        }
        h.push(Ev::R(k(n)));
    };
    // the threshold the opcode really stores (8 ms / 128 ms resolution, rounded down)
    let stored = match thr {
        0..=255 => thr,
        256..=2303 => (thr - 255) / 8 * 8 + 255,
        _ => (thr - 2303) / 128 * 128 + 2303,
    };
    let rounds = 1 + rng.usize(3);
    for _ in 0..rounds {
        let ntyped = 1 + rng.usize(3);
        let opening = ["typed-1", "typed-2", "typed-3"][ntyped - 1];
        for i in 0..ntyped {
            tap(&mut h, *rng.pick(&["a", "b"]), *rng.pick(&[1u64, 5, 20]));
            if i + 1 < ntyped {
                t(&mut h, *rng.pick(&[0u64, 3, 30]));
            }
        }
        let mut pool: Vec<u64> = vec![0, 1, 5, thr / 2, 2 * thr, 2 * thr + 50, 3 * thr + 7, thr + 1000, 3000];
        for c in [thr, stored] {
            pool.extend_from_slice(&[c.saturating_sub(2), c.saturating_sub(1), c, c + 1, c + 2]);
        }
        if rng.chance(1, 12) {
            pool = vec![10_001, 70_000];
        }
        let gap = *rng.pick(&pool);
        let gap_from = h.len();
        t(&mut h, gap);
        let probe_from = h.len();
        let sw = *rng.pick(&["s", "s", "u"]);
        tap(&mut h, sw, *rng.pick(&[1u64, 4]));
        if rng.chance(1, 3) {
            t(&mut h, *rng.pick(&[1u64, 3, 10]));
            tap(&mut h, *rng.pick(&["s", "u"]), 2);
        }
        let probe_to = h.len();
        marks.push(ScMark { opening, gap, against: thr, gap_from, probe_from, probe_to });
        t(&mut h, *rng.pick(&[0u64, 10, thr + 5, 1500]));
    }
    (h, marks)
}

struct Case {
    sc_marks: Vec<Vec<ScMark>>,
    zr_marks: Vec<Vec<ZrMark>>,
    kind: &'static str,
    s: Shaped,
    kinds_used: Vec<&'static str>,
    hists: Vec<Vec<Ev>>,
    final_gaps: Vec<u64>,
}

fn n_real(ctx: &Ctx) -> u64 {
    ctx.tier.sel(40, 300)
}
fn n_shaped(ctx: &Ctx) -> u64 {
    // 60 / 1500 configurations per family
    ctx.tier.sel(1140, 28_500)
}
fn n_random(ctx: &Ctx) -> u64 {
    ctx.tier.sel(800, 20_000)
}

fn random_profile() -> Profile {
    let mut p = Profile::non_latching();
    p.timeouts = vec![1, 2, 5, 20, 50, 200];
    p.max_depth = 3;
    p
}

fn make_case(ctx: &Ctx, idx: u64) -> Case {
    // idx is relative to the start of the emulator cases
    let mut rng = Rng::for_case(ctx.seed, "C07", "case", idx);
    let nh = ctx.tier.sel(5, 10);
    let (kind, s, kinds_used) = if idx < n_shaped(ctx) {
        // (not idx % 16: the runner shards by idx % workers, a family must not live on one worker)
        let fam = ((idx + idx / FAMILIES.len() as u64) as usize) % FAMILIES.len();
        ("shaped", shaped(&mut rng, fam), vec![])
    } else {
        let g = gen::generate(&mut rng, &random_profile());
        let ku: Vec<&'static str> = g.kinds_used.iter().copied().collect();
        (
            "random",
            Shaped { feature: "random-grammar", text: g.text, files: g.files, keys: g.keys, numbers: g.numbers, red: g.rapid_event_delay, zippy: false, zr: None, script: None },
            ku,
        )
    };
    let keys: Vec<u16> = s.keys.iter().map(|k| osc(k)).collect();
    let (small, big) = gap_pools(&s.numbers);
    let mut hists = vec![];
    let mut final_gaps = vec![];
    let mut zr_marks = vec![];
    let mut sc_marks = vec![];
    for i in 0..nh {
        if let Some(sc) = &s.script {
            // scripted rounds; every other history continues with a short random tail
            let (mut h, marks) = match sc {
                Script::Op { n, t1, t2, .. } => op_hist(&mut rng, *n, *t1, *t2),
                Script::Kt { thr, .. } => kt_hist(&mut rng, *thr),
            };
            if i % 2 == 1 {
                let n = 2 + rng.usize(10);
                h.extend(gen_hist(&mut rng, &keys, n, &small, &big, 1, i % 4 == 1));
            }
            hists.push(h);
            sc_marks.push(marks);
            zr_marks.push(vec![]);
            final_gaps.push(*rng.pick(&[1u64, 50, 300, 1000, 1000, 1000, 10_001, 70_000]));
            continue;
        }
        sc_marks.push(vec![]);
        if let Some((react, deadline)) = s.zr {
            // scripted rounds; every other history continues with a short random tail
            let (mut h, marks) = zr_hist(&mut rng, react, deadline);
            if i % 2 == 1 {
                let n = 2 + rng.usize(10);
                h.extend(gen_hist(&mut rng, &keys, n, &small, &big, 1, false));
            }
            hists.push(h);
            zr_marks.push(marks);
            final_gaps.push(*rng.pick(&[1u64, 50, 300, 1000, 1000, 1000, 10_001, 70_000]));
            continue;
        }
        zr_marks.push(vec![]);
        let n = 4 + rng.usize(ctx.tier.sel(30, 60));
        let mut h = if i % 2 == 0 { scripted_prefix(&mut rng, &s) } else { vec![] };
        let calm = i % 3 == 2;
        // "calm" histories: one key at a time most of the time, so blocked points while a single
        // feature is active are frequent
        let h2 = if calm {
            let mut v = vec![];
            let mut budget = 2;
            for _ in 0..n / 2 {
                let k = *rng.pick(&keys);
                v.push(Ev::P(k));
                let hold = if budget > 0 && rng.chance(1, 8) {
                    budget -= 1;
                    *rng.pick(&big)
                } else {
                    *rng.pick(&small)
                };
                if hold > 0 {
                    v.push(Ev::T(hold));
                }
                v.push(Ev::R(k));
                let g = if budget > 0 && rng.chance(1, 8) {
                    budget -= 1;
                    *rng.pick(&big)
                } else {
                    *rng.pick(&small)
                };
                if g > 0 {
                    v.push(Ev::T(g));
                }
            }
            v
        } else {
            {
                let nbig = 1 + rng.usize(2);
                gen_hist(&mut rng, &keys, n, &small, &big, nbig, i % 4 == 1)
            }
        };
        h.extend(h2);
        hists.push(h);
        final_gaps.push(*rng.pick(&[1u64, 50, 300, 1000, 1000, 1000, 10_001, 70_000]));
    }
    Case { sc_marks, zr_marks, kind, s, kinds_used, hists, final_gaps }
}

fn spin_bound(s: &Shaped) -> u64 {
    let sum: u64 = s.numbers.iter().map(|n| (*n).min(70_000)).sum();
    (4 * sum + 40 * (s.red + 2) + 3000).min(400_000)
}

fn gap_bucket(g: u64) -> &'static str {
    match g {
        0 => "gap_0",
        1 => "gap_1",
        2..=9 => "gap_2_9",
        10..=99 => "gap_10_99",
        100..=999 => "gap_100_999",
        1000..=9999 => "gap_1000_9999",
        10_000..=65_534 => "gap_10000_65534",
        _ => "gap_ge_65535",
    }
}

fn files_map(files: &[(String, String)]) -> FileMap {
    let mut m = FileMap::default();
    for (k, v) in files {
        m.insert(k.clone(), v.clone());
    }
    m
}

static DEBUG: std::sync::atomic::AtomicBool = std::sync::atomic::AtomicBool::new(false);
static MINIMISED: std::sync::Mutex<std::collections::BTreeSet<String>> = std::sync::Mutex::new(std::collections::BTreeSet::new());

fn run_emu_case(ctx: &Ctx, idx: u64, out: &mut CaseOut) {
    let mut c = make_case(ctx, idx);
    if ctx.verbose {
        eprintln!("config ({} / {}):\n{}", c.kind, c.s.feature, c.s.text);
        // debugging aid: KV_C07_HIST="d:A t:5 u:A" replaces the histories, KV_C07_TRACE=1 prints every loop iteration
        if let Ok(hs) = std::env::var("KV_C07_HIST") {
            c.hists = vec![crate::checks::c01::parse_hist(&hs)];
            c.final_gaps = vec![std::env::var("KV_C07_FG").ok().and_then(|s| s.parse().ok()).unwrap_or(1)];
        }
        if std::env::var("KV_C07_TRACE").is_ok() {
            DEBUG.store(true, std::sync::atomic::Ordering::Relaxed);
        }
    }
    let files = files_map(&c.s.files);
    let bound = spin_bound(&c.s);
    let mut accepted = false;
    for (hi, h) in c.hists.iter().enumerate() {
        let fg = c.final_gaps[hi];
        if ctx.verbose {
            eprintln!("history {hi}: {}  (final gap {fg})", render_hist(h));
        }
        // a crash of the code under test belongs to C02 (reported there); it ends this case
        let j = match guarded(|| judge(&c.s.text, &files, h, fg, bound, c.s.zippy)) {
            Ok(Ok(j)) => j,
            Ok(Err(e)) => {
                if ctx.verbose {
                    eprintln!("rejected: {e}");
                }
                break;
            }
            Err((msg, loc)) => {
                if crate::core::runner::loc_is_harness(&loc) {
                    panic!("{msg} at {loc}");
                }
                out.inc("histories_crashed_reported_by_C02");
                if ctx.verbose {
                    eprintln!("crash at {loc}: {msg}");
                }
                break;
            }
        };
        accepted = true;
        out.inc("histories");
        out.count("events", h.iter().filter(|e| !matches!(e, Ev::T(_))).count() as u64);
        out.count("loop_iterations", j.l.plan.len() as u64);
        out.count("ticks_L", j.l.ticks);
        out.count("ticks_R", j.r.ticks + j.r.gap_ticks);
        out.count("outputs_compared", j.ltrace.len() as u64);
        let nb = j.l.blocks.len() as u64;
        out.count("blocked_points", nb);
        if nb > 0 {
            out.inc("histories_with_blocked_point");
        }
        let min_num = c.s.numbers.iter().copied().filter(|n| *n > 0).min().unwrap_or(u64::MAX);
        let max_num = c.s.numbers.iter().copied().max().unwrap_or(0);
        let mut fmask = 0u32;
        for b in &j.l.blocks {
            out.count("skipped_ticks", b.gap);
            out.inc(gap_bucket(b.gap));
            if b.gap > 0 {
                out.inc("blocked_points_with_gap");
                out.inc(&format!("blocked_in:{}", c.s.feature));
            }
            if b.gap >= min_num {
                out.inc("gaps_crossing_a_configured_timeout");
            }
            if b.gap > max_num && max_num > 0 {
                out.inc("gaps_crossing_every_configured_timeout");
            }
            if b.last {
                out.inc("blocked_at_end_of_history");
            }
            fmask |= b.feats;
            for (i, name) in FEATS.iter().enumerate() {
                if b.feats & (1 << i) != 0 && b.gap > 0 {
                    out.inc(&format!("block_with:{name}"));
                }
            }
        }
        if !j.l.ended_blocked {
            out.inc("histories_never_blocking_at_end");
        }
        out.count("gaps_where_predicate_turned_false_while_ticking", j.r.unblocked_in_gap);
        out.count("iterations_where_R_predicate_differs", j.r.pred_mismatch);
        if j.viol.is_empty() {
            out.count("iterations_where_R_predicate_differs_without_any_output_difference", j.r.pred_mismatch);
        }
        out.max("gap", j.l.blocks.iter().map(|b| b.gap).max().unwrap_or(0));
        if nb > 0 {
            let mut ku = c.kinds_used.join(",");
            if ku.is_empty() {
                ku = c.s.feature.to_string();
            }
            let buckets: std::collections::BTreeSet<&str> = j.l.blocks.iter().map(|b| gap_bucket(b.gap)).collect();
            out.tag(format!("{ku}|f{fmask:x}|{}", buckets.into_iter().collect::<Vec<_>>().join(",")));
        }
        if let (Some((react, _)), Some(marks)) = (c.s.zr, c.zr_marks.get(hi)) {
            // wall time at which the history element with a given index happens
            let mut at = Vec::with_capacity(h.len() + 1);
            let mut tt = T0;
            for e in h.iter() {
                at.push(tt);
                if let Ev::T(n) = e {
                    tt += *n as u64;
                }
            }
            at.push(tt);
            for m in marks {
                let (g0, p0, p1) = (at[m.gap_from], at[m.probe_from], at[m.probe_to] + 3);
                let expanded = j.ltrace.iter().any(|o| o.kind == crate::core::sim::OutKind::Down && o.name == "BSpace" && o.at >= p0 && o.at <= p1);
                let slept: u64 = j.l.blocks.iter().filter(|b| b.t >= g0 && b.t < p0).map(|b| b.gap).sum();
                out.inc("zr_probes");
                out.inc(&format!("zr_opening:{}", m.opening));
                if m.split {
                    out.inc("zr_gap_split_by_ignored_key");
                }
                if slept > 0 {
                    out.inc("zr_gap_slept");
                }
                if m.gap > ZCH_FORCED_RESET {
                    out.inc("zr_gap_beyond_forced_reset");
                }
                if m.late_second {
                    out.inc("zr_second_key_around_chord_deadline");
                    out.inc(if expanded { "zr_late_second_key_expanded" } else { "zr_late_second_key_typed_plain" });
                }
                if m.disturbs {
                    out.inc(if m.gap < react { "zr_gap_lt_reactivate_after_disturbance" } else { "zr_gap_ge_reactivate_after_disturbance" });
                    out.inc(if expanded { "zr_chord_expanded_after_disturbance" } else { "zr_chord_typed_plain_after_disturbance" });
                    if slept > 0 {
                        out.inc("zr_gap_slept_after_disturbance");
                    }
                } else if expanded {
                    out.inc("zr_chord_expanded_without_disturbance");
                }
            }
        }
        out.count("gaps_where_oneshot_pause_countdown_moved_while_ticking", j.r.os_pause_ran_in_gap);
        out.count("presses_while_one_shot_active_and_pause_counting", j.l.os_press_paused);
        out.count("presses_while_one_shot_active_and_no_pause", j.l.os_press_unpaused);
        if let (Some(sc), Some(marks)) = (&c.s.script, c.sc_marks.get(hi)) {
            use crate::core::sim::OutKind;
            let mut at = Vec::with_capacity(h.len() + 1);
            let mut tt = T0;
            for e in h.iter() {
                at.push(tt);
                if let Ev::T(n) = e {
                    tt += *n as u64;
                }
            }
            at.push(tt);
            for m in marks {
                let (g0, p0, p1) = (at[m.gap_from], at[m.probe_from], at[m.probe_to] + 3);
                let gap_blocks: Vec<&Block> = j.l.blocks.iter().filter(|b| b.gap > 0 && b.t >= g0 && b.t < p0).collect();
                let slept: u64 = gap_blocks.iter().map(|b| b.gap).sum();
                let down_in_probe = |name: &str| j.ltrace.iter().any(|o| o.kind == OutKind::Down && o.name == name && o.at >= p0 && o.at <= p1);
                match sc {
                    Script::Op { place, .. } => {
                        out.inc("op_probes");
                        out.inc(&format!("op_opening:{}", m.opening));
                        out.inc(&format!("op_pause_placed:{place}"));
                        out.inc(if m.gap < m.against { "op_gap_lt_pause_time" } else { "op_gap_ge_pause_time" });
                        if gap_blocks.iter().any(|b| b.feats & FEAT_OS_PAUSE != 0) {
                            out.inc("op_gap_slept_with_pause_countdown_set");
                            if gap_blocks.iter().any(|b| b.feats & FEAT_OS_PAUSE != 0 && b.gap >= m.against) {
                                out.inc("op_gap_slept_longer_than_pause_time_with_countdown_set");
                            }
                        } else if slept > 0 {
                            out.inc("op_gap_slept_without_pause_countdown");
                        }
                    }
                    Script::Kt { shape, form, .. } => {
                        out.inc("kt_probes");
                        out.inc(&format!("kt_shape:{shape}"));
                        out.inc(&format!("kt_form:{form}"));
                        out.inc(&format!("kt_opening:{}", m.opening));
                        let lt_largest = matches!(*shape, "lt-only" | "lt-above-gt");
                        if lt_largest {
                            out.inc("kt_probes_largest_threshold_is_lt");
                        }
                        if m.gap > m.against {
                            out.inc("kt_gap_gt_threshold");
                            if lt_largest {
                                out.inc("kt_gap_gt_threshold_largest_is_lt");
                                if slept > 0 {
                                    out.inc("kt_gap_gt_threshold_largest_is_lt_partly_slept");
                                }
                            }
                        } else {
                            out.inc("kt_gap_le_threshold");
                        }
                        if down_in_probe("X") {
                            out.inc("kt_first_case_taken");
                            if lt_largest {
                                out.inc("kt_first_case_taken_largest_is_lt");
                            }
                        }
                        if down_in_probe("Y") {
                            out.inc("kt_default_case_taken");
                            if lt_largest {
                                out.inc("kt_default_case_taken_largest_is_lt");
                            }
                        }
                    }
                }
            }
        }
        for (sig, what) in &j.viol {
            // minimisation is expensive: once per signature and worker process is enough (the
            // runner keeps the smallest index per signature)
            let first_time = MINIMISED.lock().map(|mut g| g.insert(sig.clone())).unwrap_or(false);
            let hmin = if first_time || ctx.verbose { minimise(&c.s.text, &files, h, fg, bound, c.s.zippy, sig) } else { h.clone() };
            let jm = judge(&c.s.text, &files, &hmin, fg, bound, c.s.zippy).ok();
            let (lt, rt, blocks, gapout) = match &jm {
                Some(jm) => (
                    jm.ltrace.iter().map(|o| o.short()).collect::<Vec<_>>(),
                    jm.rtrace.iter().map(|o| o.short()).collect::<Vec<_>>(),
                    jm.l.blocks.iter().map(|b| json!({"t": b.t, "gap": b.gap, "end": b.last})).collect::<Vec<_>>(),
                    jm.r.gap_out.iter().take(20).map(|(bi, o)| json!({"blocked_point": bi, "output": o.short()})).collect::<Vec<_>>(),
                ),
                None => (vec![], vec![], vec![], vec![]),
            };
            let tail = |v: Vec<String>| if v.len() > 120 { v[v.len() - 120..].to_vec() } else { v };
            out.violate(
                sig.clone(),
                what.clone(),
                json!({
                    "config": c.s.text, "files": c.s.files, "feature": c.s.feature,
                    "history": render_hist(&hmin), "history_original": render_hist(h), "final_gap": fg,
                    "time_convention": format!("virtual wall clock in ms starting at {T0}; Nth event arrives at {T0} + sum of the t: gaps before it; outputs are stamped with the wall time of the tick that produced them"),
                    "observed": {"slept_L": tail(lt), "ticked_R": tail(rt), "outputs_in_gap_ticks_R": gapout, "blocked_points_L": blocks},
                    "expected": "no output in gap ticks; L and R traces identical",
                }),
            );
        }
    }
    if accepted {
        out.inc("configs_accepted");
        out.inc(if c.kind == "shaped" { "configs_shaped" } else { "configs_random" });
    } else {
        out.inc("configs_rejected");
        if c.kind == "shaped" {
            out.inc("configs_shaped_rejected");
        }
    }
    if idx % 500 == 3 {
        out.sample = Some(json!({"kind": c.kind, "feature": c.s.feature, "config": c.s.text, "history": render_hist(&c.hists[0]), "final_gap": c.final_gaps[0]}));
    }
}

// ------------------------------------------------------------------------------------------
// the real threaded loop
// ------------------------------------------------------------------------------------------

fn real_profile() -> Profile {
    let mut p = Profile::full().only(&[K::Key, K::OutChord, K::Trans, K::NoOp, K::UseDefsrc, K::LayerSwitch, K::LayerWhileHeld, K::Multi, K::Unicode, K::MouseBtn, K::ReleaseKey, K::ReleaseLayer]);
    p.boundary_numbers = false;
    p.chords_v2 = false;
    p.sequences = false;
    p.vkeys = 0;
    p.max_depth = 2;
    p.min_keys = 3;
    p.max_keys = 6;
    p.mouse_in_defsrc = false;
    p
}

struct RealCase {
    cfg: String,
    h: Vec<Ev>,
    /// sleep before each event in microseconds
    sleeps_us: Vec<u64>,
}

fn make_real_case(ctx: &Ctx, idx: u64) -> RealCase {
    let mut rng = Rng::for_case(ctx.seed, "C07", "real", idx);
    let g = gen::generate(&mut rng, &real_profile());
    let keys: Vec<u16> = g.keys.iter().map(|k| osc(k)).collect();
    // at most 18 + 6 events: the 32-slot input queue can never overflow whatever the scheduling
    let n = 6 + rng.usize(13);
    let h: Vec<Ev> = crate::gen::hist::consistent(&mut rng, &keys, n, &[0], false).into_iter().filter(|e| !matches!(e, Ev::T(_))).collect();
    let sleeps_us = h.iter().map(|_| *rng.pick(&[0u64, 0, 0, 150, 600, 1100, 2500, 5000, 9000, 25_000])).collect();
    RealCase { cfg: g.text, h, sleeps_us }
}

enum RealOutcome {
    Rejected,
    Inconclusive(String),
    Done { real: Vec<String>, wall_ms: u64 },
}

fn run_real_loop(c: &RealCase, dir: &std::path::Path) -> RealOutcome {
    use kanata_parser::keys::OsCode;
    use kanata_state_machine::oskbd::{KeyEvent, KeyValue};
    use kanata_state_machine::{Kanata, ValidatedArgs};
    use std::time::{Duration, Instant};
    if std::fs::create_dir_all(dir).is_err() {
        return RealOutcome::Inconclusive("cannot create scratch dir".into());
    }
    let path = dir.join("cfg.kbd");
    if std::fs::write(&path, &c.cfg).is_err() {
        return RealOutcome::Inconclusive("cannot write scratch config".into());
    }
    let args = ValidatedArgs { paths: vec![path], tcp_server_address: None, symlink_path: None, nodelay: true };
    let arc = match Kanata::new_arc(&args) {
        Ok(a) => a,
        Err(_) => return RealOutcome::Rejected,
    };
    let t0 = Instant::now();
    let (tx, rx) = std::sync::mpsc::sync_channel::<KeyEvent>(100);
    Kanata::start_processing_loop(arc.clone(), rx, None, true);
    for (e, us) in c.h.iter().zip(c.sleeps_us.iter()) {
        if *us > 0 {
            std::thread::sleep(Duration::from_micros(*us));
        }
        let (code, value) = match e {
            Ev::P(k) => (*k, KeyValue::Press),
            Ev::R(k) => (*k, KeyValue::Release),
            _ => continue,
        };
        let Some(code) = OsCode::from_u16(code) else { continue };
        if tx.send(KeyEvent { code, value }).is_err() {
            return RealOutcome::Inconclusive("processing thread closed the channel".into());
        }
    }
    // The channel holds at most 100 events. WakeUp events have no effect on the layout (the real
    // input layer uses them to wake the loop); once 101 of them have been accepted, at least one
    // has been received by the loop, hence every real event before it has been received *and*
    // handled (the loop handles events strictly one after the other).
    for _ in 0..101 {
        if tx.send(KeyEvent { code: OsCode::KEY_A, value: KeyValue::WakeUp }).is_err() {
            return RealOutcome::Inconclusive("processing thread closed the channel".into());
        }
    }
    // now wait until the queued events have been processed: kanata idle and queue empty, seen on
    // three consecutive polls with an unchanged output stream
    let deadline = Instant::now() + Duration::from_secs(5);
    let mut last_len = usize::MAX;
    let mut stable = 0;
    loop {
        std::thread::sleep(Duration::from_millis(2));
        let (len, idle) = {
            let k = arc.lock();
            (k.kbd_out.outputs.events.len(), k.is_idle() && k.layout.b().queue.is_empty())
        };
        if len != last_len || !idle {
            last_len = len;
            stable = 0;
        } else {
            stable += 1;
            if stable >= 3 {
                break;
            }
        }
        if Instant::now() > deadline {
            drop(tx);
            return RealOutcome::Inconclusive("real loop did not settle within 5 s of wall time".into());
        }
    }
    // closing the channel makes the processing thread return
    drop(tx);
    let real = std::mem::take(&mut arc.lock().kbd_out.outputs.events);
    RealOutcome::Done { real, wall_ms: t0.elapsed().as_millis() as u64 }
}

/// Debugging / evidence aid (replay mode only): KV_C07_REALPROBE=<config file> KV_C07_HIST="d:A t:100 u:A t:3000"
/// runs the history on the real processing thread with `t:N` as real sleeps of N ms and prints
/// when (wall-clock ms since start) each output line appeared.
fn real_probe(cfg_path: &str, h: &[Ev]) {
    use kanata_parser::keys::OsCode;
    use kanata_state_machine::oskbd::{KeyEvent, KeyValue};
    use kanata_state_machine::{Kanata, ValidatedArgs};
    use std::time::{Duration, Instant};
    let args = ValidatedArgs { paths: vec![cfg_path.into()], tcp_server_address: None, symlink_path: None, nodelay: true };
    let arc = match Kanata::new_arc(&args) {
        Ok(a) => a,
        Err(e) => {
            eprintln!("rejected: {e}");
            return;
        }
    };
    let (tx, rx) = std::sync::mpsc::sync_channel::<KeyEvent>(100);
    Kanata::start_processing_loop(arc.clone(), rx, None, true);
    let t0 = Instant::now();
    let mut seen = 0usize;
    let mut poll = |until: Instant| loop {
        {
            let k = arc.lock();
            let ev = &k.kbd_out.outputs.events;
            while seen < ev.len() {
                if !(ev[seen].starts_with("t:") && ev[seen].ends_with("ms")) {
                    println!("{:>7} ms  out  {}", t0.elapsed().as_millis(), ev[seen]);
                }
                seen += 1;
            }
        }
        if Instant::now() >= until {
            break;
        }
        std::thread::sleep(Duration::from_micros(500));
    };
    for e in h {
        match e {
            Ev::T(n) => poll(Instant::now() + Duration::from_millis(*n as u64)),
            Ev::P(k) | Ev::R(k) | Ev::Rep(k) => {
                let value = match e {
                    Ev::P(_) => KeyValue::Press,
                    Ev::R(_) => KeyValue::Release,
                    _ => KeyValue::Repeat,
                };
                if let Some(code) = OsCode::from_u16(*k) {
                    println!("{:>7} ms  in   {}", t0.elapsed().as_millis(), render_hist(std::slice::from_ref(e)));
                    let _ = tx.send(KeyEvent { code, value });
                }
            }
            _ => {}
        }
    }
    poll(Instant::now() + Duration::from_millis(50));
    let k = arc.lock();
    println!("end: is_idle={} prev_keys={:?}", k.is_idle(), k.prev_keys);
    drop(k);
    drop(tx);
}

fn run_real_case(ctx: &Ctx, idx: u64, out: &mut CaseOut) {
    if ctx.verbose {
        if let (Ok(p), Ok(hs)) = (std::env::var("KV_C07_REALPROBE"), std::env::var("KV_C07_HIST")) {
            real_probe(&p, &crate::checks::c01::parse_hist(&hs));
            return;
        }
    }
    let c = make_real_case(ctx, idx);
    if c.cfg.contains("override-release-on-activation yes") && c.cfg.contains("(defoverrides") {
        // not time-insensitive: the override output is released one tick after its activation, so
        // whether another key producing the same output arrives before or after that tick changes
        // the ordered stream (seen as a scheduling-dependent difference: seed 12, case 27)
        out.inc("real_configs_skipped_release_on_activation_is_time_sensitive");
        return;
    }
    let dir = std::path::PathBuf::from(format!("/verif/.work/{}/c07-real-{idx}", std::process::id()));
    if ctx.verbose {
        eprintln!("config:\n{}\nevents: {}\nsleeps_us: {:?}", c.cfg, render_hist(&c.h), c.sleeps_us);
    }
    let outcome = run_real_loop(&c, &dir);
    // give the processing thread a moment to observe the closed channel and drop its Kanata
    std::thread::sleep(std::time::Duration::from_millis(3));
    let _ = std::fs::remove_dir_all(&dir);
    let _ = std::fs::remove_dir(format!("/verif/.work/{}", std::process::id()));
    match outcome {
        RealOutcome::Rejected => out.inc("real_configs_rejected"),
        RealOutcome::Inconclusive(why) => {
            out.inc("real_inconclusive");
            out.inconclusive = Some(format!("RealLoop: {why}"));
        }
        RealOutcome::Done { real, wall_ms } => {
            out.inc("real_schedules");
            out.count("real_events", c.h.len() as u64);
            out.count("real_wall_ms", wall_ms);
            let (rs, ros) = ordered_stream(&real);
            // the deterministic stepper on the same configuration and event order
            let mut h = vec![];
            for e in &c.h {
                h.push(e.clone());
                h.push(Ev::T(3));
            }
            h.push(Ev::T(60));
            let step: Vec<String> = match Sim::new(&c.cfg) {
                Ok(mut sim) => {
                    sim.keep_trace = false;
                    let mut lines = vec![];
                    for e in &h {
                        match e {
                            Ev::T(n) => {
                                for _ in 0..*n {
                                    let _ = sim.k.tick_ms(1, &None);
                                    lines.append(&mut sim.k.kbd_out.outputs.events);
                                }
                            }
                            other => {
                                // through Sim so that the event path is the stepper's
                                sim.apply(other);
                            }
                        }
                    }
                    lines
                }
                Err(_) => {
                    out.inc("real_stepper_rejected");
                    return;
                }
            };
            let (ss, sos) = ordered_stream(&step);
            out.count("real_outputs_compared", ss.len() as u64);
            out.tag(format!("real|{}ev|{}out", c.h.len(), ss.len().min(40)));
            if rs != ss {
                let i = rs.iter().zip(ss.iter()).position(|(a, b)| a != b).unwrap_or(rs.len().min(ss.len()));
                out.violate(
                    "real-loop-stream-differs",
                    format!("the real processing thread emitted a different ordered OS stream than the stepper (first difference at output #{i}: {:?} vs {:?})", rs.get(i), ss.get(i)),
                    json!({"config": c.cfg, "history": render_hist(&c.h), "sleeps_us_before_each_event": c.sleeps_us,
                        "observed": {"real_loop": rs, "real_loop_os_end": ros.describe()}, "expected": {"stepper": ss, "stepper_os_end": sos.describe()}}),
                );
            }
            if idx % 16 == 1 {
                out.sample = Some(json!({"kind": "real-loop", "config": c.cfg, "events": render_hist(&c.h), "sleeps_us": c.sleeps_us, "stream": ss}));
            }
        }
    }
}

impl Check for C07Check {
    fn id(&self) -> &'static str {
        "C07"
    }
    fn n_cases(&self, ctx: &Ctx) -> u64 {
        // (the timed real-thread cases come last so that the indices of all other cases are stable)
        n_real(ctx) + n_shaped(ctx) + n_random(ctx) + timed::n_timed(ctx)
    }
    fn describe(&self, ctx: &Ctx, idx: u64) -> Value {
        if idx < n_real(ctx) {
            let c = make_real_case(ctx, idx);
            return json!({"kind": "real-loop", "config": c.cfg, "events": render_hist(&c.h), "sleeps_us": c.sleeps_us});
        }
        if idx >= n_real(ctx) + n_shaped(ctx) + n_random(ctx) {
            return timed::describe(ctx, idx - (n_real(ctx) + n_shaped(ctx) + n_random(ctx)));
        }
        let c = make_case(ctx, idx - n_real(ctx));
        json!({"kind": c.kind, "feature": c.s.feature, "config": c.s.text, "files": c.s.files, "histories": c.hists.iter().map(|h| render_hist(h)).collect::<Vec<_>>(), "final_gaps": c.final_gaps})
    }
    fn run_case(&self, ctx: &Ctx, idx: u64) -> CaseOut {
        let mut out = CaseOut::new();
        if idx < n_real(ctx) {
            run_real_case(ctx, idx, &mut out);
        } else if idx >= n_real(ctx) + n_shaped(ctx) + n_random(ctx) {
            timed::run_timed_case(ctx, idx - (n_real(ctx) + n_shaped(ctx) + n_random(ctx)), &mut out);
        } else {
            run_emu_case(ctx, idx - n_real(ctx), &mut out);
        }
        out
    }
    fn rule(&self) -> String {
        "three kinds of case. (1) emulator cases: one configuration (19 hand-shaped families, one per time-dependent feature: tap-hold variants, one-shot variants, tap-dance lazy/eager, chords v1, chords v2 with chords-v2-min-idle, macro variants, sequences (sldr, sequence, defseq, three input modes), caps-word variants, hold-for-duration, on-idle, mwheel/movemouse/movemouse-accel, switch key-timing at the compression edges, zippychord with deadlines, dynamic-macro record/replay, a mixed one, one-shot-pause-processing/rapid-event-delay, zippy-reenable (zippychord with idle-reactivate-time R from {default 500,5,20,50,200,700,3000} x on-first-press-chord-deadline from {default 500,20,50,200,2000} x smart-space none/add-space-only/full x 3 chord files; histories are 1..3 scripted rounds of: opening from {non-chord tap, chord-subset key tap, rolled non-chord keys, chord key held to the deadline +-1, chord activation, ignored-key tap, nothing}, idle gap from {0,1,R/2,R-2..R+3,2R,3R+7,1000,3000,6000,9000,9990} (one in ten from {10001,12000,70000}), a quarter of the gaps interrupted by a tap of lsft which zippychord ignores, then a two-key chord attempt in either order (second key 0..10 ms after the first, one in four at deadline-2..deadline+10), one in six under shift, optional follow-up key; every other history continues with random input), oneshot-pause (one-shot-pause-processing N, N from {5,20,50,200,300,1000}, on its own key / in multi / through a virtual key on press / on release / through the on-release of a layer-while-held key, with one-shot keys of the five variants, timeouts {N/2+1,2N,2000} and {N+1,3N,2000}; histories are 1..3 scripted rounds of: opening from {pause key tap, layer key tap, pause key then a plain key, layer held + one-shot tapped + layer released, nothing}, idle gap from {0,1,7,N/2,N-1,N,N+1,2N,2N+40,1000,3000} (one in twelve from {10001,70000}), one-shot key tap, plain key tap 1..20 ms later and again {2,5,N/2,N-1,N,N+1} ms later, pause; every other history continues with random input), key-timing-lt (switch key-timing whose largest written threshold is a less-than test: no greater-than at all / a smaller one; controls: a larger greater-than / the same threshold; threshold T from {3..200,50,200,255,256,300,1000,2303,2304,5000}; test plain / spelled less-than / in and / or / not / on the 2nd most recent key; in the layer or behind an alias; second switch key with a fallthrough case; histories are 1..3 scripted rounds of: 1..3 plain keys typed, idle gap from {0,1,5,T/2,T-2..T+2 for T as written and as stored,2T,2T+50,3T+7,T+1000,3000} (one in twelve from {10001,70000}), a switch key tapped, a third of the time tapped again at once, pause; every other history continues with random input); then the whole non-latching action grammar at random) x 5 (quick) / 10 (thorough) physically consistent histories (random overlapping, 'calm' one-key-at-a-time, scripted openings that put the feature into its pending state; OS repeats in a quarter) with gaps drawn from {0,1,2,3,7, T-1,T,T+1 for every number T in the configuration, 1000, 10001, 70000}. Each history is executed twice on the real code in a virtual-time reproduction of the processing loop: L sleeps whenever can_block_update_idle_waiting says so, R replays L's iterations but ticks through every slept gap; plus a final gap after the last event. A difference on a zippychord configuration is attributed to the known forced-reset defect only if (i) the ticking run capped so that no stretch between two certain zippy state changes (releases of non-ignored keys) executes 10000 ticks agrees with L and (ii) L kept from blocking only inside the stretches longer than 10000 ms agrees with its ticking twin; otherwise it is reported under its structural signature. A difference of any configuration that disappears when the sleeping run is kept from blocking while the one-shot-pause-processing countdown is set (tried only if that countdown moved during the ticks of a gap kanata had declared blockable) / while the newest typed key is younger than the largest key-timing threshold written in the configuration is reported as blocked-while:oneshot-pause-countdown-set / blocked-while:typed-key-younger-than-a-key-timing-threshold (live signatures, not known findings). (2) real-loop cases: a time-insensitive configuration (plain keys, output chords, multi, layers, release-key/-layer, unicode, mouse buttons, overrides) is written to a scratch file, Kanata::new_arc + the real start_processing_loop thread are fed <= 24 events through the real channel with real sleeps from {0..25 ms}; the ordered OS stream is compared with the stepper's. (3) timed real-loop cases (8 quick / 64 thorough, the last indices; family = index mod 8 so that every family is in every run): one time-dependent feature (tap-hold / -press / -release / -release-timeout / -press-timeout; one-shot / -press / -release / -press-pcancel / -release-pcancel; tap-dance + tap-dance-eager; defchords; defchordsv2; sldr + defseq with sequence-timeout in the three input modes; caps-word / -toggle; macro with a delay / macro-cancel-on-press / hold-for-duration / mwheel) with timeout T from {1200,1500,2000} ms on a real start_processing_loop thread, 2 (quick) / 3 (thorough) rounds of: [in a quarter of the rounds a plain key is pressed and stays down], real idle sleep of T+500..T+1000 ms during which kanata must be idle (the thread blocks on the channel), a probe from the family's list (4..7 per family: events 20..60 ms apart; 'fast' probes start the timed action with the first event after the gap and finish well inside T - the tap, the one-shot followed by a key, the double tap, the chord, the sequence, the word under caps-word, a key inside the macro delay; control probes contain one deliberate wait of T+600 ms - the hold, the expired one-shot, two separate taps, the too-slow chord), settle (101 WakeUp events flush the channel, then poll until kanata is idle). Round 1 always uses a fast probe. Up to 8 candidate scenarios are drawn per case until one is robust (the stepper's stream is unchanged when any single wait is 200 ms longer when all short waits are 1 ms / the over wait 200 ms shorter, and when any one / all short waits are 0 ms, i.e. events handled back to back as after a stall of the processing thread) and sensitive (the stepper's stream changes when the ticks of each idle wait are executed after the event that ends it). Oracle: ordered OS stream of the real thread == the stepper's on the same history with each wait as that many ticks; a difference is re-run once on a fresh thread and reported only if both runs are conclusive and differ in the same way (signature real-loop-after-idle:idle-gap-ticks-run-after-the-wake-event if the stream equals the stepper's with the idle ticks moved behind the wake event, else real-loop-after-idle:timed-outcome-differs). Non-trivial = history with at least one blocked point; distinct = (action kinds or family, state features present at the blocked points, gap-length buckets); for timed cases (family, variant, probe, plain key held).".into()
    }
    fn assumptions(&self) -> Vec<String> {
        vec![
            "the emulator models one admissible schedule of the real loop: integer-millisecond time, zero processing time, an event is visible to the iteration that runs at its arrival time; ms_elapsed is what handle_time_ticks would return under that schedule".into(),
            "R ticks g times where L slept g ms and then performs the same wake-up (event, one tick); a free-running ticker is not used as reference because its one-tick phase shift on wake legitimately changes outcomes that sit exactly on a timeout".into(),
            "the predicate turning false during R's gap ticks is counted, not reported, unless an output or a later difference follows".into(),
            "real-loop cases use only actions whose result does not depend on millisecond timing (configurations with defoverrides and override-release-on-activation yes are skipped: the override output is released one tick after activation, so the stream depends on whether another key with the same output arrives before or after that tick), no OS repeats, and at most 24 events (so the 32-slot queue cannot overflow under any scheduling); wall-clock trouble is inconclusive, never a violation".into(),
            "timed real-loop cases: the stepper that ticks through the nominal gaps is the reference (ticking through an idle gap is what the property says sleeping must equal); only the ordered OS stream is compared, not output times. All timeouts are >= 1200 ms, deliberate over-waits exceed the timeout by 600 ms and the short waits of a probe add up to < T - 600 ms; a run is judged only if in every probe the measured gaps between the sends exceeded the nominal ones by <= 200 ms in total (a third of that margin), no idle wait lasted more than 600 ms longer than nominal, kanata reported idle at the end of every idle wait, and the scenario's stepper outcome is the same under +-200 ms variations of every wait and with any / all short waits reduced to 0 ms; anything else is inconclusive, never a violation. Gaps are measured on the sending side; a stall of the processing thread itself cannot be measured, therefore a difference must repeat on a second fresh thread before it is reported".into(),
            "timed real-loop cases cover the wake-up path of the blocking branch only where a time-dependent action is started by, or shortly after, the event that ends the blocked gap; zippychord, dynamic macros, on-idle and switch key-timing are not among the timed families (their outcome on the ordered stream does not depend on where the idle ticks go, or they keep the loop from blocking)".into(),
            "zippychord's state is not visible from outside: the zippy-reenable counters (chord expanded / typed plain after a disturbance, gap slept) are read off the output of run L (a backspace during the chord attempt = expansion) and are evidence that both sides of the reactivation time were reached, not an oracle; whether a chord must expand is C20's question".into(),
            "a 'certain zippy state change' is the release of a key zippychord does not ignore reaching the OS (zch_release_key always resets the counter; a press does so only while zippy is enabled, which cannot be seen); stretches are therefore over-estimated, which can only make the capped run tick less, never let the forced reset fire in it".into(),
            "oneshot-pause and key-timing-lt are judged by the slept-vs-ticked relation only: whether a paused one-shot must ignore a key, or which switch case must be taken after a pause, is C06's / C10's question. Their counters (pause countdown set at a slept gap, presses met by an active one-shot with / without the pause counting, first / default switch case taken in run L, gap longer than the threshold partly slept) are read off kanata's public state and run L's output and only show that both sides were reached".into(),
            "the two blocked-while classifications are experiments on the real code (the sleeping run repeated with the loop refusing to block while that state is pending, against its own ticking twin); the largest key-timing threshold is read from the configuration text (literal numbers only), so configurations that write thresholds through variables keep the structural signature".into(),
            "latching virtual-key uses, cmd, clipboard and live-reload actions are not generated; a crash of the code under test ends the case and is C02's to report".into(),
        ]
    }
    fn floors(&self, ctx: &Ctx) -> Vec<(&'static str, u64)> {
        let mut v: Vec<(&'static str, u64)> = vec![
            ("histories", 3000),
            ("blocked_points_with_gap", 5000),
            ("skipped_ticks", 1_000_000),
            ("gaps_crossing_a_configured_timeout", 1000),
            ("gap_ge_65535", 100),
            ("gap_10000_65534", 100),
            ("configs_random", 300),
            ("real_schedules", ctx.tier.sel(25, 200)),
            ("blocked_in:tap-hold", 20),
            ("blocked_in:one-shot", 20),
            ("blocked_in:tap-dance", 20),
            ("blocked_in:chords-v1", 20),
            ("blocked_in:chords-v2", 20),
            ("blocked_in:macro", 20),
            ("blocked_in:sequence", 20),
            ("blocked_in:caps-word", 20),
            ("blocked_in:hold-for-duration", 20),
            ("blocked_in:on-idle", 20),
            ("blocked_in:mouse-repeat", 20),
            ("blocked_in:switch-key-timing", 20),
            ("blocked_in:zippychord", 20),
            ("blocked_in:dynamic-macro", 20),
            ("blocked_in:zippy-reenable", 20),
            ("zr_probes", 300),
            ("zr_gap_lt_reactivate_after_disturbance", 40),
            ("zr_gap_ge_reactivate_after_disturbance", 80),
            ("zr_chord_typed_plain_after_disturbance", 40),
            ("zr_chord_expanded_after_disturbance", 60),
            ("zr_gap_slept_after_disturbance", 60),
            ("zr_gap_split_by_ignored_key", 40),
            ("zr_second_key_around_chord_deadline", 60),
            ("zr_late_second_key_expanded", 5),
            ("zr_late_second_key_typed_plain", 10),
            ("zr_opening:nonchord-tap", 20),
            ("zr_opening:subset-key-tap", 20),
            ("zr_opening:rolled-nonchords", 20),
            ("zr_opening:deadline-expiry", 20),
            ("zr_opening:chord-activation", 20),
        ];
        v.push(("blocked_in:random-grammar", 200));
        // oneshot-pause: the pause countdown was set at slept gaps (also gaps longer than the pause),
        // and an active one-shot met presses with and without the pause counting
        for f in [
            ("blocked_in:oneshot-pause", 20),
            ("op_probes", 300),
            ("block_with:oneshot_pause_countdown_set", 500),
            ("op_gap_slept_with_pause_countdown_set", 100),
            ("op_gap_slept_longer_than_pause_time_with_countdown_set", 60),
            ("op_gap_lt_pause_time", 60),
            ("presses_while_one_shot_active_and_pause_counting", 150),
            ("presses_while_one_shot_active_and_no_pause", 500),
            ("op_opening:pause-key-tap", 30),
            ("op_opening:layer-key-tap", 30),
            ("op_opening:pause-then-typing", 30),
            ("op_opening:one-shot-then-layer-release", 30),
            ("op_pause_placed:own-key", 30),
            ("op_pause_placed:in-multi", 30),
            ("op_pause_placed:vkey-on-press", 30),
            ("op_pause_placed:vkey-on-release", 30),
            // key-timing-lt: configurations whose largest threshold is a less-than test were probed
            // after idle gaps longer than it, part of which kanata slept, and both outcomes occurred
            ("blocked_in:key-timing-lt", 20),
            ("kt_probes", 300),
            ("kt_probes_largest_threshold_is_lt", 100),
            ("kt_shape:lt-only", 30),
            ("kt_shape:lt-above-gt", 30),
            ("kt_gap_gt_threshold_largest_is_lt", 50),
            ("kt_gap_gt_threshold_largest_is_lt_partly_slept", 40),
            ("kt_gap_le_threshold", 80),
            ("kt_first_case_taken_largest_is_lt", 30),
            ("kt_default_case_taken_largest_is_lt", 50),
        ] {
            v.push(f);
        }
        // part 3: time-sensitive scenarios on the real thread that were conclusive (measured gaps
        // within the tolerance) and whose outcome depends on where the ticks of the idle gap go
        v.push(("timed_cases_judged", ctx.tier.sel(5, 40)));
        v.push(("timed_rounds_judged", ctx.tier.sel(10, 120)));
        v.push(("timed_rounds_first_event_after_blocked_gap_starts_timed_action", ctx.tier.sel(6, 70)));
        v.push(("timed_cases_sensitive_to_wake_tick_accounting", ctx.tier.sel(5, 40)));
        v.push(("timed_idle_ms_spent_blocked", ctx.tier.sel(15_000, 200_000)));
        v
    }
    fn watchdog_s(&self, _ctx: &Ctx) -> u64 {
        60
    }
}
