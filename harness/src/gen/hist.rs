//! History generators: physically consistent, hostile, bursts.

use crate::core::rng::Rng;
use crate::core::sim::Ev;

/// Physically consistent history: a key is pressed only when up, released only when down, and
/// everything is released at the end. `gaps` is the pool of inter-event tick gaps.
pub fn consistent(rng: &mut Rng, keys: &[u16], n_events: usize, gaps: &[u32], repeats: bool) -> Vec<Ev> {
    let mut h = vec![];
    let mut down: Vec<u16> = vec![];
    for _ in 0..n_events {
        let can_press = down.len() < keys.len();
        let do_press = if down.is_empty() {
            true
        } else if !can_press {
            false
        } else {
            rng.chance(55, 100)
        };
        if repeats && !down.is_empty() && rng.chance(1, 8) {
            let k = *rng.pick(&down);
            h.push(Ev::Rep(k));
        } else if do_press {
            let ups: Vec<u16> = keys.iter().copied().filter(|k| !down.contains(k)).collect();
            let k = *rng.pick(&ups);
            down.push(k);
            h.push(Ev::P(k));
        } else {
            let i = rng.usize(down.len());
            let k = down.remove(i);
            h.push(Ev::R(k));
        }
        let g = *rng.pick(gaps);
        if g > 0 {
            h.push(Ev::T(g));
        }
    }
    rng.shuffle(&mut down);
    for k in down {
        h.push(Ev::R(k));
        let g = *rng.pick(gaps);
        if g > 0 {
            h.push(Ev::T(g));
        }
    }
    h
}

/// Zero-gap burst: press all of `keys` `rounds` times over (press all, release all) without ticks.
pub fn burst(rng: &mut Rng, keys: &[u16], rounds: usize) -> Vec<Ev> {
    let mut h = vec![];
    for _ in 0..rounds {
        let mut ks = keys.to_vec();
        rng.shuffle(&mut ks);
        for k in &ks {
            h.push(Ev::P(*k));
        }
        rng.shuffle(&mut ks);
        for k in &ks {
            h.push(Ev::R(*k));
        }
    }
    h
}

/// Hostile history: physically impossible sequences over mapped keys and arbitrary codes.
pub fn hostile(rng: &mut Rng, mapped: &[u16], n_events: usize, gaps: &[u32]) -> Vec<Ev> {
    let mut h = vec![];
    let mut i = 0;
    while i < n_events {
        let code = if rng.chance(4, 5) && !mapped.is_empty() {
            *rng.pick(mapped)
        } else {
            rng.below(767) as u16 // 767 (KEY_MAX) is a sentinel that can never be a mapped key
        };
        match rng.usize(12) {
            0..=3 => h.push(Ev::P(code)),
            4..=6 => h.push(Ev::R(code)),
            7 => h.push(Ev::Rep(code)),
            8 => h.push(Ev::Tap(code)),
            9 => {
                // double press / double release
                h.push(Ev::P(code));
                h.push(Ev::P(code));
            }
            10 => {
                // flood with no ticks
                let n = 33 + rng.usize(70);
                for _ in 0..n {
                    let c = if mapped.is_empty() { code } else { *rng.pick(mapped) };
                    if rng.coin() {
                        h.push(Ev::P(c));
                    } else {
                        h.push(Ev::R(c));
                    }
                }
                i += 5;
            }
            _ => {
                h.push(Ev::R(code));
                h.push(Ev::R(code));
            }
        }
        let g = *rng.pick(gaps);
        if g > 0 {
            h.push(Ev::T(g));
        }
        i += 1;
    }
    h
}

/// keys that are down (by the input history itself) at the end
pub fn still_down(h: &[Ev]) -> Vec<u16> {
    let mut down: Vec<u16> = vec![];
    for e in h {
        match e {
            Ev::P(k) => {
                if !down.contains(k) {
                    down.push(*k)
                }
            }
            Ev::R(k) => down.retain(|x| x != k),
            _ => {}
        }
    }
    down
}

pub fn total_ticks(h: &[Ev]) -> u64 {
    h.iter().map(|e| if let Ev::T(n) = e { *n as u64 } else { 0 }).sum()
}
