//! A tiny s-expression reader/printer for structure-aware mutation of kanata configurations.
//! It is deliberately independent of kanata's own lexer.

use crate::core::rng::Rng;

#[derive(Clone, Debug, PartialEq)]
pub enum Node {
    Atom(String),
    List(Vec<Node>),
}

/// Parse the text into top-level nodes. Returns None if parentheses/strings are unbalanced.
pub fn parse(text: &str) -> Option<Vec<Node>> {
    let b: Vec<char> = text.chars().collect();
    let mut i = 0usize;
    let mut stack: Vec<Vec<Node>> = vec![vec![]];
    while i < b.len() {
        let c = b[i];
        if c.is_whitespace() {
            i += 1;
        } else if c == ';' && i + 1 < b.len() && b[i + 1] == ';' {
            while i < b.len() && b[i] != '\n' {
                i += 1;
            }
        } else if c == '#' && i + 1 < b.len() && b[i + 1] == '|' {
            i += 2;
            loop {
                if i + 1 >= b.len() {
                    return None;
                }
                if b[i] == '|' && b[i + 1] == '#' {
                    i += 2;
                    break;
                }
                i += 1;
            }
        } else if c == '(' {
            stack.push(vec![]);
            i += 1;
        } else if c == ')' {
            if stack.len() < 2 {
                return None;
            }
            let l = stack.pop().unwrap();
            stack.last_mut().unwrap().push(Node::List(l));
            i += 1;
        } else if c == '"' {
            let st = i;
            i += 1;
            while i < b.len() && b[i] != '"' {
                if b[i] == '\n' {
                    return None;
                }
                i += 1;
            }
            if i >= b.len() {
                return None;
            }
            i += 1;
            stack.last_mut().unwrap().push(Node::Atom(b[st..i].iter().collect()));
        } else if c == 'r' && i + 2 < b.len() && b[i + 1] == '#' && b[i + 2] == '"' {
            let st = i;
            i += 3;
            loop {
                if i + 1 >= b.len() {
                    return None;
                }
                if b[i] == '"' && b[i + 1] == '#' {
                    i += 2;
                    break;
                }
                i += 1;
            }
            stack.last_mut().unwrap().push(Node::Atom(b[st..i].iter().collect()));
        } else {
            let st = i;
            while i < b.len() && !b[i].is_whitespace() && b[i] != '(' && b[i] != ')' && b[i] != '"' {
                i += 1;
            }
            stack.last_mut().unwrap().push(Node::Atom(b[st..i].iter().collect()));
        }
    }
    if stack.len() != 1 {
        return None;
    }
    stack.pop()
}

pub fn print(nodes: &[Node]) -> String {
    let mut s = String::new();
    for n in nodes {
        print_node(n, &mut s);
        s.push('\n');
    }
    s
}

fn print_node(n: &Node, s: &mut String) {
    match n {
        Node::Atom(a) => s.push_str(a),
        Node::List(l) => {
            s.push('(');
            for (i, x) in l.iter().enumerate() {
                if i > 0 {
                    s.push(' ');
                }
                print_node(x, s);
            }
            s.push(')');
        }
    }
}

pub fn depth(n: &Node) -> usize {
    match n {
        Node::Atom(_) => 0,
        Node::List(l) => 1 + l.iter().map(depth).max().unwrap_or(0),
    }
}

/// paths to every node below the given top-level forms (path = indices)
pub fn all_paths(nodes: &[Node]) -> Vec<Vec<usize>> {
    fn rec(n: &Node, cur: &mut Vec<usize>, out: &mut Vec<Vec<usize>>) {
        out.push(cur.clone());
        if let Node::List(l) = n {
            for (i, x) in l.iter().enumerate() {
                cur.push(i);
                rec(x, cur, out);
                cur.pop();
            }
        }
    }
    let mut out = vec![];
    for (i, n) in nodes.iter().enumerate() {
        let mut cur = vec![i];
        rec(n, &mut cur, &mut out);
    }
    out
}

pub fn get<'a>(nodes: &'a [Node], path: &[usize]) -> Option<&'a Node> {
    let mut cur: &Node = nodes.get(*path.first()?)?;
    for &i in &path[1..] {
        match cur {
            Node::List(l) => cur = l.get(i)?,
            _ => return None,
        }
    }
    Some(cur)
}

/// the list that contains the node at `path`, and the index within it
fn parent_mut<'a>(nodes: &'a mut Vec<Node>, path: &[usize]) -> Option<(&'a mut Vec<Node>, usize)> {
    if path.len() == 1 {
        return Some((nodes, path[0]));
    }
    let mut cur: &mut Node = nodes.get_mut(path[0])?;
    for &i in &path[1..path.len() - 1] {
        match cur {
            Node::List(l) => cur = l.get_mut(i)?,
            _ => return None,
        }
    }
    match cur {
        Node::List(l) => Some((l, path[path.len() - 1])),
        _ => None,
    }
}

pub const MUTATION_KINDS: &[&str] = &[
    "delete", "duplicate", "swap-next", "to-empty-list", "list-to-atom", "atom-to-list", "number",
    "name", "drop-tail", "drop-all-args", "extra-arg", "wrap", "unwrap", "splice", "empty-string",
];

const NUMS: &[&str] = &["0", "1", "2", "65535", "65536", "-1", "4294967296", "1.5", "00", "768", "767", "30001", "9", "255", "256"];
const NAMES: &[&str] = &[
    "$self", "@self", "$a", "@a", "nosuchthing", "_", "__", "___", "XX", "a", "lsft", "O-", "S-", "C-S-", "S-()", "\"\"", "\"x y\"", "🔣", "🔣x", "t!", "use-defsrc", "rpt-any", "break", "fallthrough", "first-release", "tap", "press-vkey", "real", "virtual", "lt", "()", "r#\"\"#", "concat", "if-equal", "'", "\u{feff}", "é", "defsrc",
];

/// Apply mutation `kind` at `path`. `donor` supplies subtrees for splicing. Returns false if the
/// mutation does not apply at that node.
pub fn mutate(nodes: &mut Vec<Node>, path: &[usize], kind: &str, rng: &mut Rng, donor: &[Node]) -> bool {
    let Some((parent, idx)) = parent_mut(nodes, path) else { return false };
    if idx >= parent.len() {
        return false;
    }
    match kind {
        "delete" => {
            parent.remove(idx);
            true
        }
        "duplicate" => {
            let n = parent[idx].clone();
            parent.insert(idx, n);
            true
        }
        "swap-next" => {
            if idx + 1 < parent.len() {
                parent.swap(idx, idx + 1);
                true
            } else {
                false
            }
        }
        "to-empty-list" => {
            parent[idx] = Node::List(vec![]);
            true
        }
        "list-to-atom" => match &parent[idx] {
            Node::List(_) => {
                parent[idx] = Node::Atom(rng.pick(NAMES).to_string());
                true
            }
            _ => false,
        },
        "atom-to-list" => match &parent[idx] {
            Node::Atom(a) => {
                let a = a.clone();
                parent[idx] = Node::List(vec![Node::Atom(a)]);
                true
            }
            _ => false,
        },
        "number" => match &parent[idx] {
            Node::Atom(a) if a.chars().all(|c| c.is_ascii_digit()) && !a.is_empty() => {
                parent[idx] = Node::Atom(rng.pick(NUMS).to_string());
                true
            }
            _ => false,
        },
        "name" => match &parent[idx] {
            Node::Atom(_) => {
                parent[idx] = Node::Atom(rng.pick(NAMES).to_string());
                true
            }
            _ => false,
        },
        "empty-string" => match &parent[idx] {
            Node::Atom(_) => {
                parent[idx] = Node::Atom("\"\"".into());
                true
            }
            _ => false,
        },
        "drop-tail" => match &mut parent[idx] {
            Node::List(l) if l.len() > 1 => {
                let keep = 1 + rng.usize(l.len() - 1);
                l.truncate(keep);
                true
            }
            _ => false,
        },
        "drop-all-args" => match &mut parent[idx] {
            Node::List(l) if l.len() > 1 => {
                l.truncate(1);
                true
            }
            _ => false,
        },
        "extra-arg" => match &mut parent[idx] {
            Node::List(l) => {
                let extra = match rng.usize(3) {
                    0 => Node::Atom(rng.pick(NAMES).to_string()),
                    1 => Node::Atom(rng.pick(NUMS).to_string()),
                    _ => Node::List(vec![]),
                };
                let pos = rng.usize(l.len() + 1);
                l.insert(pos, extra);
                true
            }
            _ => false,
        },
        "wrap" => {
            let n = parent[idx].clone();
            parent[idx] = Node::List(vec![n]);
            true
        }
        "unwrap" => match parent[idx].clone() {
            Node::List(l) => {
                parent.remove(idx);
                for (k, x) in l.into_iter().enumerate() {
                    parent.insert(idx + k, x);
                }
                true
            }
            _ => false,
        },
        "splice" => {
            let paths = all_paths(donor);
            if paths.is_empty() {
                return false;
            }
            let p = rng.pick(&paths).clone();
            match get(donor, &p) {
                Some(n) if depth(n) < 12 => {
                    parent[idx] = n.clone();
                    true
                }
                _ => false,
            }
        }
        _ => false,
    }
}
