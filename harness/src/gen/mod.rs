//! Grammar-based generator for kanata configurations (the language inventory of DESIGN.md
//! appendix B). Actions are produced directly as text; a `Profile` selects which kinds of action
//! may appear so that each property's oracle gets configurations that satisfy its preconditions by
//! construction. The generator aims at *accepted* configurations but does not guarantee it; callers
//! count rejects.

use crate::core::rng::Rng;
use std::collections::BTreeSet;

pub mod hist;
pub mod sexp;

macro_rules! kinds {
    ($($name:ident),* $(,)?) => {
        #[allow(non_camel_case_types)]
        #[derive(Clone, Copy, Debug, PartialEq, Eq, PartialOrd, Ord, Hash)]
        pub enum K { $($name),* }
        pub const ALL_KINDS: &[K] = &[$(K::$name),*];
        impl K { pub fn name(self) -> &'static str { match self { $(K::$name => stringify!($name)),* } } }
    };
}

kinds!(
    Key, OutChord, Trans, NoOp, UseDefsrc, LayerSwitch, LayerWhileHeld, TapHold, Multi, Macro,
    Unicode, OneShot, OneShotPause, TapDance, ChordV1, ReleaseKey, ReleaseLayer, VkeyBalanced,
    VkeyLatching, OnIdle, HoldFor, MWheel, MoveMouse, MoveMouseAccel, MoveMouseSpeed, SetMouse,
    MouseBtn, MouseTap, MWheelNotch, DynMacro, ArbitraryCode, PushMsg, Fork, Switch, CapsWord,
    SeqLeader, SeqNoerase, Unmod, Unshift, Rpt, RptAny, Delay, ReverseRelease, Alias,
);

#[derive(Clone, Debug)]
pub struct Profile {
    pub kinds: BTreeSet<K>,
    pub min_keys: usize,
    pub max_keys: usize,
    pub min_layers: usize,
    pub max_layers: usize,
    pub max_depth: u32,
    /// pool of timeout values (ms) for tap-hold / one-shot / tap-dance / chords / macros ...
    pub timeouts: Vec<u32>,
    /// also use 0 / 1 / 65535 style boundary numbers wherever a number is written
    pub boundary_numbers: bool,
    pub chords_v2: bool,
    pub sequences: bool,
    pub overrides: bool,
    pub vkeys: usize,
    pub deflayermap: bool,
    /// randomise behavioural defcfg options
    pub defcfg_random: bool,
    /// mouse keys (mlft, mwu, …) may appear in defsrc
    pub mouse_in_defsrc: bool,
}

impl Profile {
    pub fn full() -> Profile {
        Profile {
            kinds: ALL_KINDS.iter().copied().collect(),
            min_keys: 2,
            max_keys: 8,
            min_layers: 1,
            max_layers: 4,
            max_depth: 4,
            timeouts: vec![1, 2, 5, 20, 50, 200],
            boundary_numbers: true,
            chords_v2: true,
            sequences: true,
            overrides: true,
            vkeys: 3,
            deflayermap: true,
            defcfg_random: true,
            mouse_in_defsrc: true,
        }
    }
    /// everything except actions that deliberately latch output or need the outside world
    pub fn non_latching() -> Profile {
        let mut p = Profile::full();
        p.kinds.remove(&K::VkeyLatching);
        p.boundary_numbers = false;
        p
    }
    pub fn without(mut self, ks: &[K]) -> Profile {
        for k in ks {
            self.kinds.remove(k);
        }
        self
    }
    pub fn only(mut self, ks: &[K]) -> Profile {
        self.kinds = ks.iter().copied().collect();
        self
    }
    pub fn has(&self, k: K) -> bool {
        self.kinds.contains(&k)
    }
}

pub const PHYS: &[&str] = &[
    "a", "b", "c", "d", "e", "f", "g", "h", "i", "j", "k", "l", "m", "n", "o", "p", "q", "r", "s",
    "t", "u", "v", "w", "x", "y", "z", "1", "2", "3", "4", "5", "spc", "tab", "lsft", "lctl", "lalt", "rsft",
    "ralt", "caps", "esc", "ret", "bspc", ";", ",", ".", "/",
];
pub const OUTKEYS: &[&str] = &[
    "a", "b", "c", "d", "e", "f", "g", "h", "i", "j", "k", "l", "m", "n", "o", "p", "q", "r", "s",
    "t", "u", "v", "w", "x", "y", "z", "0", "1", "2", "3", "4", "5", "6", "7", "8", "9", "spc",
    "tab", "lsft", "lctl", "lalt", "lmet", "rsft", "rctl", "ralt", "rmet", "f1", "f2", "f13",
    "f24", "nop0", "nop1", "nop9", "kp1", "kp9", "bspc", "del", "ret", "esc", "up", "left", "-", "=",
    "caps", "home", "pgup", "mute", "volu",
];
pub const MODS: &[&str] = &["lsft", "rsft", "lctl", "rctl", "lalt", "ralt", "lmet", "rmet"];
pub const MOD_PREFIX: &[&str] = &["S-", "C-", "A-", "M-", "RS-", "RC-", "RA-", "RM-", "AG-"];

#[derive(Clone, Debug, Default)]
pub struct GenCfg {
    pub text: String,
    pub files: Vec<(String, String)>,
    pub keys: Vec<String>,
    pub layers: Vec<String>,
    pub vkeys: Vec<String>,
    pub kinds_used: BTreeSet<&'static str>,
    /// every timeout / delay / duration number written into the config
    pub numbers: Vec<u64>,
    pub has_chords_v2: bool,
    pub has_sequences: bool,
    pub has_overrides: bool,
    pub rapid_event_delay: u64,
    /// sum of all macro delays etc (for drain bounds)
    pub max_depth_used: u32,
}

#[derive(Clone, Copy, Default)]
struct ActCtx {
    depth: u32,
    /// enclosing multi already holds a tap-hold / lazy tap-dance / chord
    no_waiting: bool,
    in_multi: bool,
    in_vkey: bool,
    /// position where `_` is rejected by the parser (virtual keys, chords v2, …)
    no_trans: bool,
    in_tap_of_taphold: bool,
}

pub struct Gen<'a> {
    pub rng: &'a mut Rng,
    pub p: &'a Profile,
    pub out: GenCfg,
    chord_groups: Vec<(String, Vec<String>)>,
    aliases: Vec<String>,
    /// vkeys defined so far (an action may only reference already defined ones)
    vkeys_defined: usize,
    dyn_ids: Vec<u32>,
    /// this configuration deliberately contains out-of-range numbers
    out_of_range: bool,
    /// a number is out of range with probability 1/oor_den when `out_of_range`
    oor_den: u64,
}

impl<'a> Gen<'a> {
    pub fn new(rng: &'a mut Rng, p: &'a Profile) -> Self {
        Gen {
            rng,
            p,
            out: GenCfg::default(),
            chord_groups: vec![],
            aliases: vec![],
            vkeys_defined: 0,
            dyn_ids: vec![1, 2],
            out_of_range: false,
            oor_den: 8,
        }
    }

    /// make every written number out of range with probability 1/2 (systematic near-invalid cases)
    pub fn force_out_of_range(&mut self) {
        self.out_of_range = true;
        self.oor_den = 2;
    }
    pub fn preset_vkeys_defined(&mut self, n: usize) {
        self.vkeys_defined = n;
    }
    pub fn preset_chord_group(&mut self, name: &str, ids: &[&str]) {
        self.chord_groups.push((name.to_string(), ids.iter().map(|s| s.to_string()).collect()));
    }

    fn used(&mut self, k: K) {
        self.out.kinds_used.insert(k.name());
    }

    pub fn timeout(&mut self) -> u64 {
        let t = if self.out_of_range && self.rng.chance(1, self.oor_den) {
            // out-of-range on purpose: rejected by the parser today; if a range check is ever
            // relaxed the run-time code is exercised with the value
            0
        } else if self.p.boundary_numbers && self.rng.chance(1, 8) {
            *self.rng.pick(&[1u64, 1, 2, 65535, 65534, 1000])
        } else {
            *self.rng.pick(&self.p.timeouts) as u64
        };
        self.out.numbers.push(t);
        t
    }
    /// a number where 0 is accepted
    pub fn timeout0(&mut self) -> u64 {
        if self.p.boundary_numbers && self.rng.chance(1, 6) {
            0
        } else {
            self.timeout()
        }
    }

    pub fn outkey(&mut self) -> String {
        if self.rng.chance(3, 4) {
            // bias towards a small alphabet so that keys collide between actions
            self.rng.pick(&OUTKEYS[..12]).to_string()
        } else {
            self.rng.pick(OUTKEYS).to_string()
        }
    }
    fn layer(&mut self) -> String {
        let i = self.rng.usize(self.out.layers.len());
        self.out.layers[i].clone()
    }
    fn physkey(&mut self) -> String {
        let i = self.rng.usize(self.out.keys.len());
        self.out.keys[i].clone()
    }
    fn vkey(&mut self) -> Option<String> {
        if self.vkeys_defined == 0 {
            return None;
        }
        let i = self.rng.usize(self.vkeys_defined);
        Some(self.out.vkeys[i].clone())
    }
    fn keylist(&mut self, max: usize) -> String {
        let n = self.rng.usize(max + 1);
        let mut v = vec![];
        for _ in 0..n {
            v.push(if self.rng.coin() { self.physkey() } else { self.outkey() });
        }
        format!("({})", v.join(" "))
    }

    /// key-history / key-timing / input-history recency (1-8; occasionally out of range on purpose)
    fn recency(&mut self) -> usize {
        if self.out_of_range && self.rng.chance(1, self.oor_den.min(4)) {
            *self.rng.pick(&[0usize, 9, 255])
        } else {
            1 + self.rng.usize(8)
        }
    }
    fn distance(&mut self, pool: &[u32]) -> u32 {
        if self.out_of_range && self.rng.chance(1, self.oor_den.min(4)) {
            *self.rng.pick(&[0u32, 30001, 65535])
        } else {
            *self.rng.pick(pool)
        }
    }

    fn chord_atom(&mut self) -> String {
        let n = 1 + self.rng.usize(2);
        let mut pre: Vec<&str> = vec![];
        let mut fam: Vec<char> = vec![];
        for _ in 0..n {
            let m = *self.rng.pick(MOD_PREFIX);
            // the parser rejects the same modifier twice (AG- and RA- are both RAlt)
            let f = match m {
                "AG-" | "RA-" => 'g',
                "S-" => 's',
                "RS-" => 'S',
                "C-" => 'c',
                "RC-" => 'C',
                "A-" => 'a',
                "M-" => 'm',
                _ => 'M',
            };
            if !fam.contains(&f) {
                fam.push(f);
                pre.push(m);
            }
        }
        let k = self.outkey();
        format!("{}{}", pre.concat(), k)
    }

    /// choose an action kind allowed by profile and context
    fn pick_kind(&mut self, c: &ActCtx) -> K {
        let leaf_only = c.depth >= self.p.max_depth;
        let mut cands: Vec<(u32, K)> = vec![];
        for &k in self.p.kinds.iter() {
            let (w, leaf) = match k {
                K::Key => (30, true),
                K::OutChord => (8, true),
                K::Trans => (if c.no_trans { 0 } else { 5 }, true),
                K::NoOp => (3, true),
                K::UseDefsrc => (3, true),
                K::LayerSwitch => (3, true),
                K::LayerWhileHeld => (8, true),
                K::TapHold => (if c.no_waiting || c.in_tap_of_taphold { 0 } else { 10 }, false),
                K::Multi => (8, false),
                K::Macro => (8, true),
                K::Unicode => (2, true),
                K::OneShot => (7, true),
                K::OneShotPause => (1, true),
                K::TapDance => (if c.no_waiting { 0 } else { 5 }, false),
                // (inside a virtual key a chord / repeat / macro replay can re-trigger the virtual
                // key that performs it: a configuration-level loop, not generated)
                K::ChordV1 => (if c.no_waiting || c.in_vkey || self.chord_groups.is_empty() { 0 } else { 6 }, true),
                K::ReleaseKey => (3, true),
                K::ReleaseLayer => (2, true),
                K::VkeyBalanced => (if self.vkeys_defined == 0 { 0 } else { 5 }, true),
                K::VkeyLatching => (if self.vkeys_defined == 0 { 0 } else { 3 }, true),
                K::OnIdle => (if self.vkeys_defined == 0 { 0 } else { 2 }, true),
                K::HoldFor => (if self.vkeys_defined == 0 { 0 } else { 3 }, true),
                K::MWheel => (3, true),
                K::MoveMouse => (2, true),
                K::MoveMouseAccel => (2, true),
                K::MoveMouseSpeed => (1, true),
                K::SetMouse => (1, true),
                K::MouseBtn => (3, true),
                K::MouseTap => (2, true),
                K::MWheelNotch => (2, true),
                K::DynMacro => (if c.in_vkey { 0 } else { 3 }, true),
                K::ArbitraryCode => (2, true),
                K::PushMsg => (1, true),
                K::Fork => (5, false),
                K::Switch => (5, false),
                K::CapsWord => (2, true),
                // (a virtual key that starts sequence mode can be the target of a defseq whose keys it
                // types itself: a configuration-level loop)
                K::SeqLeader => (if self.p.sequences && !c.in_vkey { 3 } else { 0 }, true),
                K::SeqNoerase => (if self.p.sequences { 1 } else { 0 }, true),
                K::Unmod => (3, true),
                K::Unshift => (2, true),
                K::Rpt => (if c.in_vkey { 0 } else { 2 }, true),
                K::RptAny => (if c.in_vkey { 0 } else { 2 }, true),
                K::Delay => (1, true),
                K::ReverseRelease => (if c.in_multi { 2 } else { 0 }, true),
                K::Alias => (if self.aliases.is_empty() || c.in_vkey { 0 } else { 4 }, true),
            };
            if w > 0 && (!leaf_only || leaf) {
                cands.push((w, k));
            }
        }
        if cands.is_empty() {
            return K::Key;
        }
        *self.rng.pick_weighted(&cands)
    }

    pub fn action(&mut self, depth: u32) -> String {
        let c = ActCtx { depth, ..Default::default() };
        self.act(c)
    }

    fn sub(&mut self, c: &ActCtx) -> String {
        let mut c2 = *c;
        c2.depth += 1;
        c2.in_multi = false;
        c2.in_tap_of_taphold = false;
        self.act(c2)
    }

    fn act(&mut self, c: ActCtx) -> String {
        if c.depth > self.out.max_depth_used {
            self.out.max_depth_used = c.depth;
        }
        let k = self.pick_kind(&c);
        self.used(k);
        match k {
            K::Key => self.outkey(),
            K::OutChord => self.chord_atom(),
            K::Trans => "_".into(),
            K::NoOp => self.rng.pick(&["XX", "•", "✗"]).to_string(),
            K::UseDefsrc => "use-defsrc".into(),
            K::LayerSwitch => format!("(layer-switch {})", self.layer()),
            K::LayerWhileHeld => {
                let n = *self.rng.pick(&["layer-while-held", "layer-toggle"]);
                format!("({n} {})", self.layer())
            }
            K::TapHold => {
                // tap-hold-except-keys never times out by design; inside a virtual key that is
                // pressed and released by a physical key it waits for a release that is itself
                // queued behind it, so it is not generated there
                let v = self.rng.usize(if c.in_vkey { 6 } else { 7 });
                let t = self.timeout0();
                let h = self.timeout();
                let mut ct = c;
                ct.depth += 1;
                ct.in_multi = false;
                ct.in_tap_of_taphold = true;
                let tap = self.act(ct);
                let hold = self.sub(&c);
                match v {
                    0 => format!("(tap-hold {t} {h} {tap} {hold})"),
                    1 => format!("(tap-hold-press {t} {h} {tap} {hold})"),
                    2 => format!("(tap-hold-release {t} {h} {tap} {hold})"),
                    3 => {
                        let to = self.sub(&c);
                        format!("(tap-hold-press-timeout {t} {h} {tap} {hold} {to})")
                    }
                    4 => {
                        let to = self.sub(&c);
                        format!("(tap-hold-release-timeout {t} {h} {tap} {hold} {to})")
                    }
                    5 => {
                        let kl = self.keylist(3);
                        format!("(tap-hold-release-keys {t} {h} {tap} {hold} {kl})")
                    }
                    _ => {
                        let kl = self.keylist(3);
                        format!("(tap-hold-except-keys {t} {h} {tap} {hold} {kl})")
                    }
                }
            }
            K::Multi => {
                let n = 1 + self.rng.usize(4);
                let mut items = vec![];
                let mut waiting_used = c.no_waiting;
                for _ in 0..n {
                    let mut c2 = c;
                    c2.depth += 1;
                    c2.in_multi = true;
                    c2.no_waiting = waiting_used;
                    c2.in_tap_of_taphold = false;
                    let s = self.act(c2);
                    if s.starts_with("(tap-hold") || s.starts_with("(tap-dance") || s.starts_with("(chord ") || s.starts_with("(multi") || s.starts_with('@') || s.starts_with("(fork") || s.starts_with("(switch") {
                        waiting_used = true;
                    }
                    items.push(s);
                }
                format!("(multi {})", items.join(" "))
            }
            K::Macro => self.macro_action(c.depth),
            K::Unicode => {
                let ch = *self.rng.pick(&["é", "ß", "λ", "😀", "x", "r#\"(\"#"]);
                format!("(unicode {ch})")
            }
            K::OneShot => {
                let v = *self.rng.pick(&["one-shot", "one-shot-press", "one-shot-release", "one-shot-press-pcancel", "one-shot-release-pcancel"]);
                let t = self.timeout();
                let inner = match self.rng.usize(3) {
                    0 => format!("(layer-while-held {})", self.layer()),
                    1 => self.chord_atom(),
                    _ => {
                        if self.rng.coin() {
                            self.rng.pick(MODS).to_string()
                        } else {
                            self.outkey()
                        }
                    }
                };
                format!("({v} {t} {inner})")
            }
            K::OneShotPause => {
                let t = self.timeout();
                format!("(one-shot-pause-processing {t})")
            }
            K::TapDance => {
                let eager = self.rng.coin();
                let t = self.timeout();
                // an empty list is rejected by the parser (it used to be accepted and crash)
                let n = if self.out_of_range && self.rng.chance(1, 3) { 0 } else { 1 + self.rng.usize(4) };
                let mut items = vec![];
                for _ in 0..n {
                    items.push(self.sub(&c));
                }
                format!("({} {t} ({}))", if eager { "tap-dance-eager" } else { "tap-dance" }, items.join(" "))
            }
            K::ChordV1 => {
                let gi = self.rng.usize(self.chord_groups.len());
                let (g, ks) = self.chord_groups[gi].clone();
                let k = self.rng.pick(&ks).clone();
                format!("(chord {g} {k})")
            }
            K::ReleaseKey => format!("(release-key {})", self.outkey()),
            K::ReleaseLayer => format!("(release-layer {})", self.layer()),
            K::VkeyBalanced => {
                let v = self.vkey().unwrap();
                match self.rng.usize(5) {
                    0 => format!("(on-press tap-vkey {v})"),
                    1 => format!("(on-release tap-vkey {v})"),
                    2 => {
                        if c.in_multi {
                            format!("(on-press press-vkey {v}) (on-release release-vkey {v})")
                        } else {
                            format!("(multi (on-press press-vkey {v}) (on-release release-vkey {v}))")
                        }
                    }
                    3 => format!("(on-press-fakekey {v} tap)"),
                    _ => format!("(on-release release-vkey {v})"),
                }
            }
            K::VkeyLatching => {
                let v = self.vkey().unwrap();
                match self.rng.usize(6) {
                    0 => format!("(on-press press-vkey {v})"),
                    1 => format!("(on-press toggle-vkey {v})"),
                    2 => format!("(on-release press-vkey {v})"),
                    3 => format!("(on-release toggle-vkey {v})"),
                    4 => format!("(on-press-fakekey {v} toggle)"),
                    _ => format!("(on-release-fakekey {v} press)"),
                }
            }
            K::OnIdle => {
                let v = self.vkey().unwrap();
                let t = self.timeout();
                // tap and release are non-latching
                let op = *self.rng.pick(&["tap-vkey", "release-vkey"]);
                if self.rng.coin() {
                    format!("(on-idle {t} {op} {v})")
                } else {
                    format!("(on-idle-fakekey {v} {} {t})", if op == "tap-vkey" { "tap" } else { "release" })
                }
            }
            K::HoldFor => {
                let v = self.vkey().unwrap();
                let t = self.timeout();
                format!("(hold-for-duration {t} {v})")
            }
            K::MWheel => {
                let d = *self.rng.pick(&["up", "down", "left", "right"]);
                let i = self.timeout();
                let dist = self.distance(&[1u32, 120, 30000]);
                format!("(mwheel-{d} {i} {dist})")
            }
            K::MoveMouse => {
                let d = *self.rng.pick(&["up", "down", "left", "right"]);
                let i = self.timeout();
                let dist = self.distance(&[1u32, 5, 30000]);
                format!("(movemouse-{d} {i} {dist})")
            }
            K::MoveMouseAccel => {
                let d = *self.rng.pick(&["up", "down", "left", "right"]);
                let i = self.timeout();
                let at = self.timeout();
                let (mn, mx) = *self.rng.pick(&[(1u32, 1u32), (1, 30000), (5, 50), (30000, 30000)]);
                format!("(movemouse-accel-{d} {i} {at} {mn} {mx})")
            }
            K::MoveMouseSpeed => {
                let s = *self.rng.pick(&[1u32, 50, 200, 65535]);
                format!("(movemouse-speed {s})")
            }
            K::SetMouse => {
                let x = *self.rng.pick(&[0u32, 100, 65535]);
                format!("(setmouse {x} {x})")
            }
            K::MouseBtn => self.rng.pick(&["mlft", "mrgt", "mmid", "mfwd", "mbck"]).to_string(),
            K::MouseTap => self.rng.pick(&["mltp", "mrtp", "mmtp", "mftp", "mbtp"]).to_string(),
            K::MWheelNotch => self.rng.pick(&["mwu", "mwd", "mwl", "mwr"]).to_string(),
            K::DynMacro => {
                let id = *self.rng.pick(&self.dyn_ids);
                match self.rng.usize(5) {
                    0 | 1 => format!("(dynamic-macro-record {id})"),
                    2 => format!("(dynamic-macro-play {id})"),
                    3 => "dynamic-macro-record-stop".into(),
                    _ => format!("(dynamic-macro-record-stop-truncate {})", self.rng.usize(4)),
                }
            }
            K::ArbitraryCode => {
                let c = if self.out_of_range { 768 } else if self.p.boundary_numbers { *self.rng.pick(&[0u32, 1, 30, 700, 767]) } else { *self.rng.pick(&[30u32, 700]) };
                format!("(arbitrary-code {c})")
            }
            K::PushMsg => "(push-msg hello (a b) \"c d\")".into(),
            K::Fork => {
                let l = self.sub(&c);
                let r = self.sub(&c);
                let kl = self.keylist(3);
                format!("(fork {l} {r} {kl})")
            }
            K::Switch => self.switch_action(&c),
            K::CapsWord => {
                let t = self.timeout();
                match self.rng.usize(4) {
                    0 => format!("(caps-word {t})"),
                    1 => format!("(caps-word-toggle {t})"),
                    2 => format!("(caps-word-custom {t} (a b c) (1 2))"),
                    _ => format!("(caps-word-custom-toggle {t} (a b) ())"),
                }
            }
            K::SeqLeader => {
                if self.rng.coin() {
                    "sldr".into()
                } else {
                    let t = self.timeout();
                    let m = *self.rng.pick(&["", " visible-backspaced", " hidden-suppressed", " hidden-delay-type"]);
                    format!("(sequence {t}{m})")
                }
            }
            K::SeqNoerase => format!("(sequence-noerase {})", 1 + self.rng.usize(3)),
            K::Unmod => {
                let k = self.outkey();
                if self.rng.coin() {
                    format!("(unmod {k})")
                } else {
                    let m = *self.rng.pick(MODS);
                    format!("(unmod ({m}) {k})")
                }
            }
            K::Unshift => format!("(unshift {})", self.outkey()),
            K::Rpt => "rpt".into(),
            K::RptAny => "rpt-any".into(),
            K::Delay => {
                let n = self.rng.usize(3);
                if self.rng.coin() {
                    format!("(on-press-delay {n})")
                } else {
                    format!("(on-release-delay {n})")
                }
            }
            K::ReverseRelease => "reverse-release-order".into(),
            K::Alias => format!("@{}", self.rng.pick(&self.aliases).clone()),
        }
    }

    fn macro_item(&mut self, depth: u32, after_custom: &mut bool) -> String {
        let r = self.rng.usize(20);
        if *after_custom {
            // the guide: consecutive special actions may need a short delay between them
            *after_custom = false;
            return "5".into();
        }
        match r {
            0..=8 => self.outkey(),
            9..=11 => {
                let t = self.timeout();
                t.min(3000).max(1).to_string()
            }
            12 | 13 => self.chord_atom(),
            14 | 15 if depth < 2 => {
                let n = 1 + self.rng.usize(3);
                let mut v = vec![];
                let mut ac = false;
                for _ in 0..n {
                    v.push(self.macro_item(depth + 1, &mut ac));
                }
                let m = *self.rng.pick(MOD_PREFIX);
                if m == "AG-" {
                    format!("RA-({})", v.join(" "))
                } else {
                    format!("{m}({})", v.join(" "))
                }
            }
            16 if depth < 2 => {
                let n = 1 + self.rng.usize(3);
                let mut v = vec![];
                let mut ac = false;
                for _ in 0..n {
                    v.push(self.macro_item(depth + 1, &mut ac));
                }
                format!("({})", v.join(" "))
            }
            17 if self.p.has(K::Unicode) => {
                *after_custom = true;
                "(unicode λ)".into()
            }
            18 if self.p.has(K::VkeyBalanced) && self.vkeys_defined > 0 => {
                *after_custom = true;
                let v = self.vkey().unwrap();
                format!("(on-press tap-vkey {v})")
            }
            19 if self.p.has(K::MouseTap) => {
                *after_custom = true;
                "mltp".into()
            }
            _ => self.outkey(),
        }
    }

    pub fn macro_action(&mut self, _depth: u32) -> String {
        let v = *self.rng.pick(&[
            "macro",
            "macro",
            "macro-repeat",
            "macro-release-cancel",
            "macro-repeat-release-cancel",
            "macro-cancel-on-press",
            "macro-repeat-cancel-on-press",
            "macro-release-cancel-and-cancel-on-press",
            "macro-repeat-release-cancel-and-cancel-on-press",
        ]);
        let n = 1 + self.rng.usize(6);
        let mut items = vec![];
        let mut ac = false;
        for _ in 0..n {
            items.push(self.macro_item(0, &mut ac));
        }
        format!("({v} {})", items.join(" "))
    }

    fn switch_logic(&mut self, depth: u32) -> String {
        let r = self.rng.usize(if depth >= 3 { 6 } else { 10 });
        match r {
            0 | 1 => self.outkey(),
            2 => format!("(key-history {} {})", self.outkey(), self.recency()),
            3 => {
                let t = if self.p.boundary_numbers { *self.rng.pick(&[0u32, 1, 255, 256, 2303, 2304, 65535]) } else { *self.rng.pick(&[1u32, 50, 300]) };
                format!("(key-timing {} {} {t})", self.recency(), self.rng.pick(&["lt", "gt", "less-than", "greater-than"]))
            }
            4 => {
                if self.rng.coin() || self.vkeys_defined == 0 {
                    format!("(input real {})", self.physkey())
                } else {
                    format!("(input virtual {})", self.vkey().unwrap())
                }
            }
            5 => match self.rng.usize(3) {
                0 => format!("(layer {})", self.layer()),
                1 => format!("(base-layer {})", self.layer()),
                _ => format!("(input-history real {} {})", self.physkey(), self.recency()),
            },
            _ => {
                let op = *self.rng.pick(&["or", "and", "not"]);
                let n = 1 + self.rng.usize(3);
                let mut v = vec![];
                for _ in 0..n {
                    v.push(self.switch_logic(depth + 1));
                }
                format!("({op} {})", v.join(" "))
            }
        }
    }

    fn switch_action(&mut self, c: &ActCtx) -> String {
        let n = 1 + self.rng.usize(4);
        let mut s = String::from("(switch");
        for _ in 0..n {
            let m = self.rng.usize(3);
            let mut items = vec![];
            for _ in 0..m {
                items.push(self.switch_logic(0));
            }
            let a = self.sub(c);
            let post = if self.rng.chance(2, 3) { "break" } else { "fallthrough" };
            s.push_str(&format!(" ({}) {a} {post}", items.join(" ")));
        }
        s.push(')');
        s
    }

    // ------------------------------------------------------------ whole configuration

    pub fn config(mut self) -> GenCfg {
        let p = self.p;
        self.out_of_range = p.boundary_numbers && self.rng.chance(1, 12);
        // keys
        let nk = p.min_keys + self.rng.usize(p.max_keys - p.min_keys + 1);
        let mut pool: Vec<&str> = PHYS.to_vec();
        if p.mouse_in_defsrc && self.rng.chance(1, 6) {
            pool.extend_from_slice(&["mlft", "mrgt", "mwu", "mwd"]);
        }
        let idxs = self.rng.subset(pool.len(), nk);
        self.out.keys = idxs.iter().map(|&i| pool[i].to_string()).collect();
        let nl = p.min_layers + self.rng.usize(p.max_layers - p.min_layers + 1);
        self.out.layers = (0..nl).map(|i| format!("l{i}")).collect();
        self.out.vkeys = (0..p.vkeys.min(if p.vkeys > 0 { 1 + self.rng.usize(p.vkeys) } else { 0 })).map(|i| format!("v{i}")).collect();

        let mut text = String::new();

        // defcfg
        let mut opts: Vec<String> = vec![];
        let mut red = 5u64;
        if p.defcfg_random {
            if self.rng.coin() {
                opts.push(format!("process-unmapped-keys {}", self.rng.pick(&["yes", "no"])));
            }
            if self.rng.chance(1, 4) {
                opts.push("block-unmapped-keys yes".into());
            }
            if self.rng.chance(1, 3) {
                opts.push("delegate-to-first-layer yes".into());
            }
            if self.rng.chance(1, 3) {
                opts.push(format!("transparent-key-resolution {}", self.rng.pick(&["to-base-layer", "layer-stack"])));
            }
            if self.rng.chance(1, 3) {
                red = *self.rng.pick(&[0u64, 1, 5, 20]);
                opts.push(format!("rapid-event-delay {red}"));
            }
            if self.rng.chance(1, 4) {
                opts.push("override-release-on-activation yes".into());
            }
            if self.rng.chance(1, 4) {
                opts.push("allow-hardware-repeat no".into());
            }
            if self.rng.chance(1, 4) {
                opts.push("movemouse-smooth-diagonals yes".into());
            }
            if self.rng.chance(1, 4) {
                opts.push("movemouse-inherit-accel-state yes".into());
            }
            if self.rng.chance(1, 4) {
                let n = if p.boundary_numbers { *self.rng.pick(&[0u32, 1, 3, 65535]) } else { *self.rng.pick(&[3u32, 100]) };
                opts.push(format!("dynamic-macro-max-presses {n}"));
            }
            if self.rng.chance(1, 4) {
                opts.push(format!("dynamic-macro-replay-delay-behaviour {}", self.rng.pick(&["constant", "recorded"])));
            }
            if p.sequences {
                if self.rng.chance(1, 3) {
                    let t = self.timeout();
                    opts.push(format!("sequence-timeout {t}"));
                }
                if self.rng.chance(1, 3) {
                    opts.push(format!("sequence-input-mode {}", self.rng.pick(&["visible-backspaced", "hidden-suppressed", "hidden-delay-type"])));
                }
                if self.rng.chance(1, 6) {
                    opts.push("sequence-backtrack-modcancel no".into());
                }
            }
        }
        let want_v2 = p.chords_v2 && self.rng.chance(1, 3) && self.out.keys.len() >= 2;
        let concurrent = want_v2 || (p.defcfg_random && self.rng.chance(1, 3));
        if concurrent {
            opts.push("concurrent-tap-hold yes".into());
        }
        if want_v2 && self.rng.chance(1, 3) {
            opts.push(format!("chords-v2-min-idle {}", self.rng.pick(&[5u32, 20, 100])));
        }
        self.out.rapid_event_delay = red;
        if !opts.is_empty() {
            text.push_str(&format!("(defcfg {})\n", opts.join(" ")));
        }
        text.push_str(&format!("(defsrc {})\n", self.out.keys.join(" ")));

        // chord groups v1 (declared before use; actions generated later so they can use anything)
        let mut n_groups = if p.has(K::ChordV1) && self.rng.chance(1, 3) { 1 + self.rng.usize(2) } else { 0 };
        let mut id_budget = self.out.keys.len();
        if id_budget < 2 {
            n_groups = 0;
        }
        let mut group_specs: Vec<(String, u64, Vec<Vec<String>>)> = vec![];
        for g in 0..n_groups {
            let name = format!("cg{g}");
            if id_budget < 2 {
                break;
            }
            let nids = (2 + self.rng.usize(3)).min(id_budget);
            id_budget -= nids;
            let ids: Vec<String> = (0..nids).map(|i| format!("k{i}")).collect();
            let t = self.timeout();
            let mut chords: Vec<Vec<String>> = vec![];
            let mut seen = BTreeSet::new();
            for _ in 0..(1 + self.rng.usize(5)) {
                let n = 1 + self.rng.usize(ids.len());
                let mut sel = self.rng.subset(ids.len(), n);
                sel.sort();
                if seen.insert(sel.clone()) {
                    chords.push(sel.iter().map(|&i| ids[i].clone()).collect());
                }
            }
            // only identifiers that occur in some chord exist in the group
            let ids: Vec<String> = ids.into_iter().filter(|i| chords.iter().any(|c| c.contains(i))).collect();
            self.chord_groups.push((name.clone(), ids));
            group_specs.push((name, t, chords));
        }

        // virtual keys
        if !self.out.vkeys.is_empty() {
            let mut s = String::from("(defvirtualkeys");
            for i in 0..self.out.vkeys.len() {
                let c = ActCtx { depth: 1, in_vkey: true, no_trans: true, ..Default::default() };
                let a = if self.rng.chance(1, 2) { self.outkey() } else { self.act(c) };
                s.push_str(&format!("\n  {} {}", self.out.vkeys[i], a));
                self.vkeys_defined = i + 1;
            }
            s.push_str(")\n");
            text.push_str(&s);
        }

        // chord groups text
        for (name, t, chords) in group_specs {
            let mut s = format!("(defchords {name} {t}");
            for ch in chords {
                let c = ActCtx { depth: 1, no_waiting: true, no_trans: false, ..Default::default() };
                let a = self.act(c);
                s.push_str(&format!("\n  ({}) {}", ch.join(" "), a));
            }
            s.push_str(")\n");
            text.push_str(&s);
        }

        // aliases
        if p.has(K::Alias) {
            let n = self.rng.usize(4);
            if n > 0 {
                let mut s = String::from("(defalias");
                for i in 0..n {
                    let a = self.action(1);
                    s.push_str(&format!("\n  al{i} {a}"));
                    self.aliases.push(format!("al{i}"));
                }
                s.push_str(")\n");
                text.push_str(&s);
            }
        }

        // every key id of a chord group must be bound somewhere: do it on the first layer
        let mut forced_cells: Vec<String> = vec![];
        for (g, ids) in self.chord_groups.clone() {
            for id in ids {
                forced_cells.push(format!("(chord {g} {id})"));
            }
        }
        // layers
        for li in 0..nl {
            let lname = self.out.layers[li].clone();
            if p.deflayermap && self.rng.chance(1, 4) && !(li == 0 && !forced_cells.is_empty()) {
                let mut s = format!("(deflayermap ({lname})");
                let keys = self.out.keys.clone();
                for k in keys.iter() {
                    if self.rng.chance(3, 4) {
                        let a = self.action(0);
                        s.push_str(&format!("\n  {k} {a}"));
                    }
                }
                s.push_str(")\n");
                text.push_str(&s);
            } else {
                let mut s = format!("(deflayer {lname}");
                for ki in 0..self.out.keys.len() {
                    let a = match forced_cells.get(ki) {
                        Some(f) if li == 0 => f.clone(),
                        _ => self.action(0),
                    };
                    s.push_str(&format!("\n  {a}"));
                }
                s.push_str(")\n");
                text.push_str(&s);
            }
        }

        // chords v2
        if want_v2 {
            self.out.has_chords_v2 = true;
            let mut s = String::from("(defchordsv2");
            let mut seen = BTreeSet::new();
            for _ in 0..(1 + self.rng.usize(4)) {
                let n = 2 + self.rng.usize((self.out.keys.len() - 1).min(3));
                let mut sel = self.rng.subset(self.out.keys.len(), n.min(self.out.keys.len()));
                sel.sort();
                if sel.len() < 2 || !seen.insert(sel.clone()) {
                    continue;
                }
                let mut ks: Vec<String> = sel.iter().map(|&i| self.out.keys[i].clone()).collect();
                // out-of-range form: a key listed several times (up to more entries than the
                // runtime's 16-slot list of an active chord's keys); rejected by a correct parser,
                // must not crash at run time if accepted
                if self.rng.chance(1, 12) {
                    let dup = ks[0].clone();
                    let extra = *self.rng.pick(&[1usize, 2, 15, 16, 17]);
                    for _ in 0..extra {
                        ks.insert(0, dup.clone());
                    }
                }
                let c = ActCtx { depth: 1, no_trans: true, ..Default::default() };
                let a = self.act(c);
                let t = self.timeout();
                let rel = *self.rng.pick(&["first-release", "all-released"]);
                let dis = if self.rng.chance(1, 4) { self.layer() } else { String::new() };
                s.push_str(&format!("\n  ({}) {a} {t} {rel} ({dis})", ks.join(" ")));
            }
            s.push_str(")\n");
            if s.lines().count() > 1 {
                text.push_str(&s);
            } else {
                self.out.has_chords_v2 = false;
            }
        }

        // sequences
        if p.sequences && !self.out.vkeys.is_empty() && self.rng.chance(1, 3) {
            self.out.has_sequences = true;
            let mut s = String::from("(defseq");
            // distinct first keys keep the table prefix-free
            let firsts = self.rng.subset(12, self.out.vkeys.len().min(3));
            for (i, f) in firsts.iter().enumerate() {
                let mut ks = vec![OUTKEYS[*f].to_string()];
                for _ in 0..self.rng.usize(3) {
                    ks.push(OUTKEYS[self.rng.usize(12)].to_string());
                }
                if self.rng.chance(1, 4) {
                    ks.push(format!("O-({} {})", OUTKEYS[self.rng.usize(6)], OUTKEYS[6 + self.rng.usize(6)]));
                }
                s.push_str(&format!("\n  {} ({})", self.out.vkeys[i], ks.join(" ")));
            }
            s.push_str(")\n");
            text.push_str(&s);
        }

        // overrides
        if p.overrides && self.rng.chance(1, 4) {
            self.out.has_overrides = true;
            let mut s = String::from("(defoverrides");
            for _ in 0..(1 + self.rng.usize(3)) {
                let m = *self.rng.pick(MODS);
                let k = OUTKEYS[self.rng.usize(12)];
                let mut ok = self.outkey();
                while MODS.contains(&ok.as_str()) {
                    ok = self.outkey();
                }
                let out = if self.rng.coin() { format!("{} {}", self.rng.pick(MODS), ok) } else { ok };
                if self.rng.chance(1, 4) {
                    s.push_str(&format!("\n  ({k}) ({out})"));
                } else {
                    s.push_str(&format!("\n  ({m} {k}) ({out})"));
                }
            }
            s.push_str(")\n");
            text.push_str(&s);
        }

        self.out.text = text;
        self.out
    }
}

pub fn generate(rng: &mut Rng, p: &Profile) -> GenCfg {
    Gen::new(rng, p).config()
}
