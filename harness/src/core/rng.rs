//! Deterministic, dependency-free PRNG (SplitMix64) so that every case is a pure
//! function of (VERIF_SEED, check id, case index) on every toolchain.

#[derive(Clone, Debug)]
pub struct Rng(pub u64);

fn mix(mut z: u64) -> u64 {
    z = (z ^ (z >> 30)).wrapping_mul(0xbf58476d1ce4e5b9);
    z = (z ^ (z >> 27)).wrapping_mul(0x94d049bb133111eb);
    z ^ (z >> 31)
}

pub fn hash_str(s: &str) -> u64 {
    // FNV-1a then mixed
    let mut h: u64 = 0xcbf29ce484222325;
    for b in s.as_bytes() {
        h ^= *b as u64;
        h = h.wrapping_mul(0x100000001b3);
    }
    mix(h)
}

impl Rng {
    pub fn new(seed: u64) -> Self {
        Rng(mix(seed ^ 0x9e3779b97f4a7c15))
    }
    /// Derive the generator of one case.
    pub fn for_case(seed: u64, check: &str, stream: &str, idx: u64) -> Self {
        let mut s = mix(seed.wrapping_add(0x9e3779b97f4a7c15));
        s = mix(s ^ hash_str(check));
        s = mix(s ^ hash_str(stream).rotate_left(17));
        s = mix(s ^ idx.wrapping_mul(0xd6e8feb86659fd93));
        Rng(s)
    }
    pub fn fork(&mut self) -> Rng {
        Rng(mix(self.next_u64()))
    }
    pub fn next_u64(&mut self) -> u64 {
        self.0 = self.0.wrapping_add(0x9e3779b97f4a7c15);
        mix(self.0)
    }
    /// uniform in 0..n (n>0)
    pub fn below(&mut self, n: u64) -> u64 {
        debug_assert!(n > 0);
        // multiply-shift; bias is negligible for our n
        ((self.next_u64() as u128 * n as u128) >> 64) as u64
    }
    pub fn usize(&mut self, n: usize) -> usize {
        self.below(n as u64) as usize
    }
    /// uniform in lo..=hi
    pub fn range(&mut self, lo: u64, hi: u64) -> u64 {
        lo + self.below(hi - lo + 1)
    }
    pub fn chance(&mut self, num: u64, den: u64) -> bool {
        self.below(den) < num
    }
    pub fn coin(&mut self) -> bool {
        self.next_u64() & 1 == 1
    }
    pub fn pick<'a, T>(&mut self, v: &'a [T]) -> &'a T {
        &v[self.usize(v.len())]
    }
    pub fn pick_weighted<'a, T>(&mut self, v: &'a [(u32, T)]) -> &'a T {
        let tot: u64 = v.iter().map(|x| x.0 as u64).sum();
        let mut r = self.below(tot);
        for (w, t) in v {
            if r < *w as u64 {
                return t;
            }
            r -= *w as u64;
        }
        &v[v.len() - 1].1
    }
    pub fn shuffle<T>(&mut self, v: &mut [T]) {
        for i in (1..v.len()).rev() {
            let j = self.usize(i + 1);
            v.swap(i, j);
        }
    }
    /// choose k distinct indices of 0..n
    pub fn subset(&mut self, n: usize, k: usize) -> Vec<usize> {
        let mut v: Vec<usize> = (0..n).collect();
        self.shuffle(&mut v);
        v.truncate(k.min(n));
        v
    }
}
