//! Multi-process runner with the crash oracle.
//!
//! The coordinator forks worker processes of this same binary (kanata keeps process-global state,
//! so parallelism comes from processes). A worker announces `B <idx>` before each case and runs it
//! under `catch_unwind`; a caught panic ends the worker (global statics may be inconsistent), a
//! death by signal (stack overflow, abort, sanitizer report) is attributed to the case that was
//! announced last, a per-case wall-clock watchdog kills a stuck worker. Workers are restarted
//! after the offending case.

use super::findings::{self, Finding};
use super::rng::hash_str;
use super::{CaseOut, Check, Ctx, Tier};
use serde_json::{json, Map, Value};
use std::collections::{BTreeMap, HashSet};
use std::io::{BufRead, BufReader, Write};
use std::os::unix::process::ExitStatusExt;
use std::path::PathBuf;
use std::process::{Command, Stdio};
use std::sync::{Arc, Mutex};
use std::time::{Duration, Instant};

pub struct RunOpts {
    pub tier: Tier,
    pub seed: u64,
    pub workers: usize,
    pub root: String,
    pub lane: String,
    /// additional lanes: (lane name, path of the kvmon binary built in that lane, run every k-th case)
    pub extra_lanes: Vec<(String, PathBuf, u64)>,
    pub max_cases: Option<u64>,
}

// ---------------------------------------------------------------- panic capture

static LAST_PANIC: Mutex<Option<(String, String)>> = Mutex::new(None);

pub fn install_panic_hook(quiet: bool) {
    std::panic::set_hook(Box::new(move |info| {
        let msg = if let Some(s) = info.payload().downcast_ref::<&str>() {
            s.to_string()
        } else if let Some(s) = info.payload().downcast_ref::<String>() {
            s.clone()
        } else {
            "<non-string panic payload>".to_string()
        };
        let loc = info
            .location()
            .map(|l| format!("{}:{}", l.file(), l.line()))
            .unwrap_or_else(|| "<unknown>".into());
        if !quiet {
            eprintln!("panic at {loc}: {msg}");
        }
        if let Ok(mut g) = LAST_PANIC.lock() {
            if g.is_none() {
                *g = Some((msg, loc));
            }
        }
    }));
}

pub fn take_panic() -> Option<(String, String)> {
    LAST_PANIC.lock().ok().and_then(|mut g| g.take())
}

/// Run `f`, turning a panic into (message, location).
pub fn guarded<T>(f: impl FnOnce() -> T) -> Result<T, (String, String)> {
    let _ = take_panic();
    match std::panic::catch_unwind(std::panic::AssertUnwindSafe(f)) {
        Ok(v) => Ok(v),
        Err(_) => Err(take_panic().unwrap_or(("<unknown>".into(), "<unknown>".into()))),
    }
}

fn norm_msg(m: &str) -> String {
    let mut out = String::new();
    let mut in_num = false;
    for ch in m.chars() {
        if ch.is_ascii_digit() {
            if !in_num {
                out.push('N');
                in_num = true;
            }
        } else {
            in_num = false;
            out.push(if ch == '\n' { ' ' } else { ch });
        }
        if out.len() > 90 {
            break;
        }
    }
    out
}

fn strip_repo(loc: &str) -> String {
    let l = loc.strip_prefix("/repo/").unwrap_or(loc);
    // dependencies from the cargo registry: keep "<crate-version>/src/..."
    if let Some(i) = l.find("/registry/src/") {
        let rest = &l[i + "/registry/src/".len()..];
        if let Some(j) = rest.find('/') {
            return format!("dep:{}", &rest[j + 1..]);
        }
    }
    l.to_string()
}

pub fn loc_is_harness(loc: &str) -> bool {
    loc.contains("/verif/") || loc.contains("harness/src/") || {
        let l = loc.trim_start_matches("./");
        l.starts_with("src/core/") || l.starts_with("src/checks/") || l.starts_with("src/gen/") || l.starts_with("src/main.rs")
    }
}

/// signature of a panic: file (without line, so unrelated edits do not move it) + normalised message
pub fn panic_sig(msg: &str, loc: &str) -> String {
    let file = strip_repo(loc);
    let file = file.rsplit_once(':').map(|x| x.0.to_string()).unwrap_or(file);
    format!("panic:{}:{}", file, norm_msg(msg))
}

// ---------------------------------------------------------------- worker

struct WorkerAgg {
    evals: u64,
    out: CaseOut,
    tag_seen: HashSet<u64>,
    tag_new: Vec<u64>,
    samples: Vec<Value>,
    inconclusive: BTreeMap<String, u64>,
}

impl WorkerAgg {
    fn new() -> Self {
        WorkerAgg {
            evals: 0,
            out: CaseOut::new(),
            tag_seen: HashSet::new(),
            tag_new: vec![],
            samples: vec![],
            inconclusive: BTreeMap::new(),
        }
    }
    fn flush(&mut self) {
        let mut counters = Map::new();
        for (k, v) in std::mem::take(&mut self.out.counters) {
            counters.insert(k, json!(v));
        }
        let mut inc = Map::new();
        for (k, v) in std::mem::take(&mut self.inconclusive) {
            inc.insert(k, json!(v));
        }
        let j = json!({
            "evals": self.evals,
            "counters": counters,
            "tags": std::mem::take(&mut self.tag_new),
            "samples": std::mem::take(&mut self.samples),
            "inconclusive": inc,
        });
        self.evals = 0;
        println!("A {j}");
    }
}

pub struct WorkerArgs {
    pub shard: u64,
    pub nshards: u64,
    pub start: u64,
    pub end: u64,
    pub stride: u64,
    pub only: Option<u64>,
}

pub fn worker(check: &dyn Check, ctx: &Ctx, a: &WorkerArgs) -> i32 {
    // A worker whose coordinator is gone (killed, crashed) must not keep running: a case that
    // hangs inside the code under test would otherwise spin for ever as an orphan.
    let parent = std::os::unix::process::parent_id();
    std::thread::spawn(move || loop {
        std::thread::sleep(std::time::Duration::from_secs(2));
        if std::os::unix::process::parent_id() != parent {
            std::process::exit(4);
        }
    });
    install_panic_hook(true);
    let mut agg = WorkerAgg::new();
    let mut sample_budget = 2usize;
    let mut idx = a.start;
    if let Some(o) = a.only {
        idx = o;
    }
    let mut since_flush = 0u64;
    let all_below = check.all_lanes_below(ctx);
    while idx < a.end {
        let mine = a.only.is_some() || (idx % a.nshards == a.shard && (idx < all_below || (idx / a.nshards) % a.stride == 0));
        if mine {
            println!("B {idx}");
            let r = guarded(|| check.run_case(ctx, idx));
            match r {
                Ok(mut out) => {
                    agg.evals += 1;
                    for v in std::mem::take(&mut out.violations) {
                        let j = json!({"idx": idx, "sig": v.sig, "what": v.what, "witness": v.witness});
                        println!("V {j}");
                    }
                    if let Some(r) = out.inconclusive.take() {
                        *agg.inconclusive.entry(r).or_insert(0) += 1;
                    }
                    for t in std::mem::take(&mut out.tags) {
                        let h = hash_str(&t);
                        if agg.tag_seen.len() < 4_000_000 && agg.tag_seen.insert(h) {
                            agg.tag_new.push(h);
                        }
                    }
                    if let Some(s) = out.sample.take() {
                        if sample_budget > 0 {
                            sample_budget -= 1;
                            agg.samples.push(s);
                        }
                    }
                    agg.out.merge(out);
                }
                Err((msg, loc)) => {
                    agg.flush();
                    let j = json!({"idx": idx, "msg": msg, "loc": loc});
                    println!("P {j}");
                    let _ = std::io::stdout().flush();
                    return 9;
                }
            }
            since_flush += 1;
            if since_flush >= 256 {
                since_flush = 0;
                agg.flush();
            }
        }
        if a.only.is_some() {
            break;
        }
        idx += 1;
    }
    agg.flush();
    println!("END");
    let _ = std::io::stdout().flush();
    0
}

// ---------------------------------------------------------------- coordinator

#[derive(Default)]
struct LaneAgg {
    evals: u64,
    counters: BTreeMap<String, u64>,
    tags: HashSet<u64>,
    samples: Vec<Value>,
    inconclusive: BTreeMap<String, u64>,
    violations: Vec<Value>, // {idx,sig,what,witness,lane}
    harness_errors: Vec<String>,
    worker_restarts: u64,
}

fn merge_counter(m: &mut BTreeMap<String, u64>, k: &str, v: u64) {
    if k.starts_with("max_") {
        let e = m.entry(k.to_string()).or_insert(0);
        if v > *e {
            *e = v;
        }
    } else {
        *m.entry(k.to_string()).or_insert(0) += v;
    }
}

/// CPU time (user+system) consumed so far by process `pid`, in seconds.
fn cpu_seconds(pid: u32) -> Option<f64> {
    let stat = std::fs::read_to_string(format!("/proc/{pid}/stat")).ok()?;
    // fields after the ")" that ends the command name; utime and stime are the 12th and 13th of those
    let rest = &stat[stat.rfind(')')? + 1..];
    let f: Vec<&str> = rest.split_whitespace().collect();
    let utime: f64 = f.get(11)?.parse().ok()?;
    let stime: f64 = f.get(12)?.parse().ok()?;
    Some((utime + stime) / 100.0)
}

struct ShardState {
    pid: Option<u32>,
    /// CPU seconds of the worker when the current case was announced
    case_cpu0: Option<f64>,
    case_started: Option<Instant>,
    killed_by_watchdog: bool,
    done: bool,
}

enum ChildEnd {
    Finished,
    Panic { idx: u64, msg: String, loc: String },
    Died { idx: Option<u64>, how: String },
    Watchdog { idx: Option<u64> },
}

#[allow(clippy::too_many_arguments)]
fn run_child(
    exe: &PathBuf,
    check_id: &str,
    tier: Tier,
    seed: u64,
    lane: &str,
    wa: &WorkerArgs,
    agg: &Arc<Mutex<LaneAgg>>,
    st: &Arc<Mutex<ShardState>>,
) -> ChildEnd {
    let mut cmd = Command::new(exe);
    cmd.arg("worker")
        .arg(check_id)
        .arg("--tier")
        .arg(tier.name())
        .arg("--seed")
        .arg(seed.to_string())
        .arg("--shard")
        .arg(wa.shard.to_string())
        .arg("--nshards")
        .arg(wa.nshards.to_string())
        .arg("--start")
        .arg(wa.start.to_string())
        .arg("--end")
        .arg(wa.end.to_string())
        .arg("--stride")
        .arg(wa.stride.to_string())
        .arg("--lane")
        .arg(lane);
    if let Some(o) = wa.only {
        cmd.arg("--only").arg(o.to_string());
    }
    cmd.stdin(Stdio::null()).stdout(Stdio::piped()).stderr(Stdio::null());
    let mut child = cmd.spawn().expect("harness: cannot spawn worker");
    {
        let mut s = st.lock().unwrap();
        s.pid = Some(child.id());
        s.case_started = None;
        s.killed_by_watchdog = false;
    }
    let stdout = child.stdout.take().unwrap();
    let rd = BufReader::new(stdout);
    let mut cur: Option<u64> = None;
    let mut ended = false;
    let mut panic_info: Option<(u64, String, String)> = None;
    for line in rd.lines() {
        let Ok(line) = line else { break };
        if let Some(r) = line.strip_prefix("B ") {
            cur = r.trim().parse().ok();
            let mut g = st.lock().unwrap();
            g.case_started = Some(Instant::now());
            g.case_cpu0 = g.pid.and_then(cpu_seconds);
        } else if let Some(r) = line.strip_prefix("A ") {
            if let Ok(v) = serde_json::from_str::<Value>(r) {
                let mut a = agg.lock().unwrap();
                a.evals += v["evals"].as_u64().unwrap_or(0);
                if let Some(c) = v["counters"].as_object() {
                    for (k, x) in c {
                        merge_counter(&mut a.counters, k, x.as_u64().unwrap_or(0));
                    }
                }
                if let Some(t) = v["tags"].as_array() {
                    for x in t {
                        if let Some(h) = x.as_u64() {
                            a.tags.insert(h);
                        }
                    }
                }
                if let Some(s) = v["samples"].as_array() {
                    for x in s {
                        if a.samples.len() < 5 {
                            a.samples.push(x.clone());
                        }
                    }
                }
                if let Some(c) = v["inconclusive"].as_object() {
                    for (k, x) in c {
                        *a.inconclusive.entry(k.clone()).or_insert(0) += x.as_u64().unwrap_or(0);
                    }
                }
            }
        } else if let Some(r) = line.strip_prefix("V ") {
            if let Ok(mut v) = serde_json::from_str::<Value>(r) {
                v["lane"] = json!(lane);
                agg.lock().unwrap().violations.push(v);
            }
        } else if let Some(r) = line.strip_prefix("P ") {
            if let Ok(v) = serde_json::from_str::<Value>(r) {
                panic_info = Some((
                    v["idx"].as_u64().unwrap_or(0),
                    v["msg"].as_str().unwrap_or("").to_string(),
                    v["loc"].as_str().unwrap_or("").to_string(),
                ));
            }
        } else if line == "END" {
            ended = true;
            st.lock().unwrap().case_started = None;
        }
    }
    let status = child.wait().expect("harness: wait");
    let wd = {
        let mut s = st.lock().unwrap();
        s.pid = None;
        s.case_started = None;
        s.killed_by_watchdog
    };
    if let Some((idx, msg, loc)) = panic_info {
        return ChildEnd::Panic { idx, msg, loc };
    }
    if ended && status.success() {
        return ChildEnd::Finished;
    }
    if wd {
        return ChildEnd::Watchdog { idx: cur };
    }
    let how = if let Some(sig) = status.signal() {
        let n = match sig {
            11 => "SIGSEGV",
            6 => "SIGABRT",
            4 => "SIGILL",
            7 => "SIGBUS",
            9 => "SIGKILL",
            _ => "signal",
        };
        format!("{n}({sig})")
    } else {
        format!("exit({})", status.code().unwrap_or(-1))
    };
    ChildEnd::Died { idx: cur, how }
}

fn run_lane(
    check: &dyn Check,
    ctx: &Ctx,
    exe: &PathBuf,
    lane: &str,
    workers: usize,
    n_cases: u64,
    stride: u64,
) -> LaneAgg {
    let agg = Arc::new(Mutex::new(LaneAgg::default()));
    let states: Vec<Arc<Mutex<ShardState>>> = (0..workers)
        .map(|_| {
            Arc::new(Mutex::new(ShardState {
                pid: None,
                case_cpu0: None,
                case_started: None,
                killed_by_watchdog: false,
                done: false,
            }))
        })
        .collect();
    // The budget is for the verdict lane; instrumented lanes run the same case several times slower
    // (a case that needs 8 s natively must not become a "hang" under ASan or valgrind).
    let lane_factor: u64 = match lane {
        "asan" => 6,
        "tsan" => 12,
        "memcheck" => 50,
        "chk" => 4,
        _ => 1,
    };
    let watchdog = Duration::from_secs(check.watchdog_s(ctx) * lane_factor);
    // Once several hangs have been confirmed the verdict of the run is settled; the remaining cases
    // are still run, but a case that exceeds a much shorter budget is then cut off and only counted
    // (inconclusive), so that a tree that hangs on hundreds of cases does not take hours to judge.
    const CONFIRMED_HANGS_FOR_SHORT_BUDGET: u64 = 6;
    let short_budget = Duration::from_secs(check.watchdog_s(ctx).min(2) * lane_factor);
    let confirmed_hangs = Arc::new(std::sync::atomic::AtomicU64::new(0));
    let wd_hangs = confirmed_hangs.clone();
    // watchdog thread
    let wd_states = states.clone();
    let wd_stop = Arc::new(Mutex::new(false));
    let wd_stop2 = wd_stop.clone();
    let wd = std::thread::spawn(move || loop {
        std::thread::sleep(Duration::from_millis(250));
        if *wd_stop2.lock().unwrap() {
            break;
        }
        for s in &wd_states {
            let mut s = s.lock().unwrap();
            if let (Some(pid), Some(t0)) = (s.pid, s.case_started) {
                // The budget is CPU time of the worker, so that a loaded machine cannot turn a
                // slow case into a "hang"; wall clock only as a very generous backstop.
                let cpu_used = match (cpu_seconds(pid), s.case_cpu0) {
                    (Some(now), Some(c0)) => now - c0,
                    _ => 0.0,
                };
                let budget = if wd_hangs.load(std::sync::atomic::Ordering::Relaxed) >= CONFIRMED_HANGS_FOR_SHORT_BUDGET { short_budget } else { watchdog };
                let over = cpu_used > budget.as_secs_f64() || t0.elapsed() > budget * 20;
                if over && !s.killed_by_watchdog {
                    s.killed_by_watchdog = true;
                    let _ = Command::new("kill").arg("-9").arg(pid.to_string()).status();
                }
            }
        }
    });
    let check_id = check.id();
    let hang_is_violation = check.hang_is_violation();
    std::thread::scope(|sc| {
        for (shard, st) in states.iter().enumerate() {
            let agg = agg.clone();
            let st = st.clone();
            let exe = exe.clone();
            let tier = ctx.tier;
            let seed = ctx.seed;
            let confirmed_hangs = confirmed_hangs.clone();
            sc.spawn(move || {
                let mut start = 0u64;
                loop {
                    let wa = WorkerArgs {
                        shard: shard as u64,
                        nshards: workers as u64,
                        start,
                        end: n_cases,
                        stride,
                        only: None,
                    };
                    let end = run_child(&exe, check_id, tier, seed, lane, &wa, &agg, &st);
                    let next_after = |idx: Option<u64>| idx.map(|i| i + 1);
                    match end {
                        ChildEnd::Finished => break,
                        ChildEnd::Panic { idx, msg, loc } => {
                            let mut a = agg.lock().unwrap();
                            a.worker_restarts += 1;
                            if loc_is_harness(&loc) {
                                a.harness_errors.push(format!("case {idx}: panic in harness at {loc}: {msg}"));
                            } else {
                                let is_assert = msg.contains("assertion");
                                if lane == "chk" && is_assert {
                                    merge_counter(&mut a.counters, "debug_only_assertions", 1);
                                    let site = format!("debug_assert@{}", panic_sig(&msg, &loc));
                                    merge_counter(&mut a.counters, &site, 1);
                                } else {
                                    a.violations.push(json!({
                                        "idx": idx, "lane": lane,
                                        "sig": panic_sig(&msg, &loc),
                                        "what": format!("panic at {}: {}", strip_repo(&loc), msg.lines().next().unwrap_or("")),
                                        "witness": {"panic_message": msg, "panic_location": loc},
                                        "needs_describe": true,
                                    }));
                                }
                            }
                            start = idx + 1;
                        }
                        ChildEnd::Died { idx, how } => {
                            let mut a = agg.lock().unwrap();
                            a.worker_restarts += 1;
                            match idx {
                                Some(i) => {
                                    a.violations.push(json!({
                                        "idx": i, "lane": lane,
                                        "sig": format!("death:{}", how.split('(').next().unwrap_or("?")),
                                        "what": format!("worker process died ({how}) while running the case: stack overflow / abort"),
                                        "witness": {"death": how},
                                        "needs_describe": true,
                                    }));
                                    start = i + 1;
                                }
                                None => {
                                    a.harness_errors.push(format!("worker died ({how}) before announcing a case"));
                                    break;
                                }
                            }
                        }
                        ChildEnd::Watchdog { idx } => {
                            agg.lock().unwrap().worker_restarts += 1;
                            let Some(i) = idx else {
                                agg.lock().unwrap().harness_errors.push("watchdog fired outside a case".into());
                                break;
                            };
                            if confirmed_hangs.load(std::sync::atomic::Ordering::Relaxed) >= CONFIRMED_HANGS_FOR_SHORT_BUDGET {
                                let mut a = agg.lock().unwrap();
                                *a.inconclusive.entry(format!("cut off after {}s of CPU time (short budget: {} hangs already confirmed in this run)", short_budget.as_secs(), CONFIRMED_HANGS_FOR_SHORT_BUDGET)).or_insert(0) += 1;
                                start = i + 1;
                                if start >= n_cases {
                                    break;
                                }
                                continue;
                            }
                            // re-run in isolation twice
                            let mut reproduced = 0;
                            for _ in 0..2 {
                                let wa1 = WorkerArgs { shard: 0, nshards: 1, start: i, end: i + 1, stride: 1, only: Some(i) };
                                let tmp = Arc::new(Mutex::new(LaneAgg::default()));
                                match run_child(&exe, check_id, tier, seed, lane, &wa1, &tmp, &st) {
                                    ChildEnd::Watchdog { .. } => reproduced += 1,
                                    _ => break,
                                }
                            }
                            let mut a = agg.lock().unwrap();
                            if reproduced == 2 && hang_is_violation {
                                confirmed_hangs.fetch_add(1, std::sync::atomic::Ordering::Relaxed);
                                a.violations.push(json!({
                                    "idx": i, "lane": lane,
                                    "sig": "hang:watchdog",
                                    "what": format!("case did not finish within {}s of CPU time, three times in a row", watchdog.as_secs()),
                                    "witness": {"watchdog_s": watchdog.as_secs()},
                                    "needs_describe": true,
                                }));
                            } else {
                                *a.inconclusive.entry(format!("watchdog(reproduced {reproduced}/2)")).or_insert(0) += 1;
                            }
                            let _ = next_after;
                            start = i + 1;
                        }
                    }
                    if start >= n_cases {
                        break;
                    }
                }
                st.lock().unwrap().done = true;
            });
        }
    });
    *wd_stop.lock().unwrap() = true;
    let _ = wd.join();
    Arc::try_unwrap(agg).ok().unwrap().into_inner().unwrap()
}

fn describe_case(exe: &PathBuf, check_id: &str, ctx: &Ctx, idx: u64) -> Value {
    let out = Command::new(exe)
        .arg("describe")
        .arg(check_id)
        .arg("--tier")
        .arg(ctx.tier.name())
        .arg("--seed")
        .arg(ctx.seed.to_string())
        .arg("--idx")
        .arg(idx.to_string())
        .stdin(Stdio::null())
        .stderr(Stdio::null())
        .output();
    match out {
        Ok(o) => serde_json::from_slice(&o.stdout).unwrap_or(Value::Null),
        Err(_) => Value::Null,
    }
}

pub fn coordinator(check: &dyn Check, opts: &RunOpts) -> i32 {
    let t0 = Instant::now();
    let ctx = Ctx {
        tier: opts.tier,
        seed: opts.seed,
        verbose: false,
        lane: opts.lane.clone(),
    };
    let id = check.id();
    let mut n_cases = check.n_cases(&ctx);
    if let Some(m) = opts.max_cases {
        n_cases = n_cases.min(m);
    }
    let exe = std::env::current_exe().expect("harness: current_exe");
    let workers = opts.workers.max(1).min(n_cases.max(1) as usize);
    eprintln!("[{id}] tier={} seed={} lane={} cases={} workers={}", opts.tier.name(), opts.seed, opts.lane, n_cases, workers);
    let main = run_lane(check, &ctx, &exe, &opts.lane, workers, n_cases, 1);

    let mut lanes_json = Map::new();
    let mut all_violations: Vec<Value> = main.violations.clone();
    let mut harness_errors = main.harness_errors.clone();
    let mut skipped_lanes = vec![];
    for (lane, lexe, stride) in &opts.extra_lanes {
        if !lexe.exists() {
            skipped_lanes.push(lane.clone());
            lanes_json.insert(lane.clone(), json!({"status": "skipped: lane binary not built"}));
            continue;
        }
        let lctx = Ctx { lane: lane.clone(), ..ctx.clone() };
        eprintln!("[{id}] extra lane {lane}: every {stride}-th case");
        let la = run_lane(check, &lctx, lexe, lane, workers, n_cases, *stride);
        all_violations.extend(la.violations.clone());
        harness_errors.extend(la.harness_errors.iter().map(|e| format!("[{lane}] {e}")));
        lanes_json.insert(
            lane.clone(),
            json!({
                "status": "ran",
                "evaluations": la.evals,
                "violations": la.violations.len(),
                "worker_restarts": la.worker_restarts,
                "debug_only_assertions": la.counters.get("debug_only_assertions").copied().unwrap_or(0),
                "debug_only_assertion_sites": la.counters.iter().filter(|(k, _)| k.starts_with("debug_assert@")).map(|(k, v)| (k.clone(), json!(v))).collect::<Map<String, Value>>(),
                "inconclusive": la.inconclusive,
            }),
        );
    }

    // classify violations against the known-findings file
    let known: Vec<Finding> = findings::load(&opts.root);
    let mut known_hits: BTreeMap<String, u64> = BTreeMap::new();
    let mut new_by_sig: BTreeMap<String, Vec<Value>> = BTreeMap::new();
    for v in all_violations.iter() {
        let sig = v["sig"].as_str().unwrap_or("?").to_string();
        let is_crash = sig.starts_with("panic:") || sig.starts_with("death:") || sig.starts_with("overflow:");
        let hit = known.iter().find(|f| f.is_open() && f.matches(&sig) && (f.property == id || is_crash));
        match hit {
            Some(f) => *known_hits.entry(format!("{}|{}", f.property, f.signature)).or_insert(0) += 1,
            None => new_by_sig.entry(sig).or_default().push(v.clone()),
        }
    }

    // write replays for new violations (one per signature, the smallest index)
    let mut violation_lines = vec![];
    let replay_dir = format!("{}/replays/{}", opts.root, id);
    if !new_by_sig.is_empty() {
        let _ = std::fs::create_dir_all(&replay_dir);
    }
    let per_sig: usize = std::env::var("KV_REPLAYS_PER_SIG").ok().and_then(|s| s.parse().ok()).unwrap_or(1);
    for (sig, vs) in new_by_sig.iter() {
        // extra replays for triage (not reported as separate VIOLATION lines)
        if per_sig > 1 {
            let mut sorted: Vec<&Value> = vs.iter().collect();
            sorted.sort_by_key(|v| v["idx"].as_u64().unwrap_or(u64::MAX));
            for (k, v) in sorted.iter().enumerate().skip(1).take(per_sig - 1) {
                let idx = v["idx"].as_u64().unwrap_or(0);
                let doc = json!({"property": id, "tier": opts.tier.name(), "seed": opts.seed, "idx": idx, "lane": v["lane"], "signature": sig, "what": v["what"], "witness": v["witness"]});
                let _ = std::fs::write(format!("{replay_dir}/extra-{:016x}-{k}.json", hash_str(sig)), serde_json::to_string_pretty(&doc).unwrap());
            }
        }
        let v = vs.iter().min_by_key(|v| v["idx"].as_u64().unwrap_or(u64::MAX)).unwrap();
        let idx = v["idx"].as_u64().unwrap_or(0);
        let lane = v["lane"].as_str().unwrap_or(&opts.lane).to_string();
        let mut witness = v["witness"].clone();
        if v.get("needs_describe").and_then(|x| x.as_bool()).unwrap_or(false) {
            let d = describe_case(&exe, id, &ctx, idx);
            if let Some(o) = witness.as_object_mut() {
                o.insert("case".into(), d);
            }
        }
        let h = hash_str(&format!("{sig}|{idx}|{}|{}", opts.seed, opts.tier.name()));
        let path = format!("{replay_dir}/{:016x}.json", h);
        let doc = json!({
            "property": id, "tier": opts.tier.name(), "seed": opts.seed, "idx": idx, "lane": lane,
            "signature": sig, "what": v["what"], "occurrences": vs.len(), "witness": witness,
        });
        let _ = std::fs::write(&path, serde_json::to_string_pretty(&doc).unwrap());
        violation_lines.push((sig.clone(), path, v["what"].as_str().unwrap_or("").to_string(), vs.len()));
    }

    // floors
    let mut unmet = vec![];
    for (name, min) in check.floors(&ctx) {
        let got = main.counters.get(name).copied().unwrap_or(0);
        if got < min {
            unmet.push(format!("{name}={got} < {min}"));
        }
    }

    let inconclusive_cases: u64 = main.inconclusive.values().sum();
    let wall = t0.elapsed().as_secs_f64();

    // evidence
    let mut counters = Map::new();
    for (k, v) in &main.counters {
        counters.insert(k.clone(), json!(v));
    }
    let mut samples = main.samples.clone();
    if samples.is_empty() {
        samples.push(json!({"note": "no case produced a written-out sample in this run"}));
    }
    let known_obs: Map<String, Value> = known_hits.iter().map(|(k, v)| (k.clone(), json!(v))).collect();
    let new_sigs: Vec<Value> = violation_lines.iter().map(|(s, p, w, n)| json!({"signature": s, "replay": p, "what": w, "occurrences": n})).collect();
    let mut coverage = json!({
        "evaluations": main.evals,
        "distinct_nontrivial": main.tags.len(),
        "rule": check.rule(),
        "samples": samples,
        "exhaustive": check.exhaustive(&ctx),
        "counters": counters,
        "cases_planned": n_cases,
        "workers": workers,
        "worker_restarts": main.worker_restarts,
        "inconclusive_cases": main.inconclusive,
        "coverage_floors_unmet": unmet,
        "known_findings_observed": known_obs,
        "new_violation_signatures": new_sigs,
        "harness_errors": harness_errors,
        "lane": opts.lane,
    });
    if !lanes_json.is_empty() {
        coverage["extra_lanes"] = Value::Object(lanes_json);
    }
    // results of lanes run by the ./check script itself (e.g. the Miri lane of C11)
    if let Ok(extra) = std::env::var("KV_EXTRA_EVIDENCE") {
        if let Ok(v) = serde_json::from_str::<Value>(&extra) {
            coverage["external_lanes"] = v;
        }
    }
    let verdict = if !violation_lines.is_empty() {
        "violated"
    } else if !unmet.is_empty() || !harness_errors.is_empty() || main.evals == 0 {
        "inconclusive"
    } else {
        "held-on-explored"
    };
    coverage["verdict"] = json!(verdict);
    let ev = json!({
        "property_id": id,
        "tier": opts.tier.name(),
        "seed": opts.seed,
        "level": "exploration",
        "coverage": coverage,
        "assumptions": check.assumptions(),
        "wall_s": (wall * 100.0).round() / 100.0,
        "violations": all_violations.len(),
    });
    let evdir = format!("{}/evidence", opts.root);
    let _ = std::fs::create_dir_all(&evdir);
    let evpath = format!("{evdir}/{id}.json");
    std::fs::write(&evpath, serde_json::to_string_pretty(&ev).unwrap() + "\n").expect("harness: cannot write evidence");

    // report
    println!(
        "[{id}] evaluations={} distinct_nontrivial={} violations={} (known {} / new signatures {}) inconclusive_cases={} wall={:.1}s",
        main.evals,
        main.tags.len(),
        all_violations.len(),
        known_hits.values().sum::<u64>(),
        violation_lines.len(),
        inconclusive_cases,
        wall
    );
    for (k, v) in &main.counters {
        println!("[{id}]   {k} = {v}");
    }
    for f in known.iter().filter(|f| f.is_open() && f.property == id) {
        let n = known_hits.get(&format!("{}|{}", f.property, f.signature)).copied().unwrap_or(0);
        println!("KNOWN-FINDING: property={} {} [signature {}; observed {} times in this run]", f.property, f.what, f.signature, n);
    }
    // crash findings of other properties observed here
    for (k, n) in &known_hits {
        let (p, s) = k.split_once('|').unwrap();
        if p != id {
            if let Some(f) = known.iter().find(|f| f.property == p && f.signature == s) {
                println!("KNOWN-FINDING: property={} {} [signature {}; observed {} times in this run of {}]", f.property, f.what, f.signature, n, id);
            }
        }
    }
    for e in &harness_errors {
        println!("[{id}] HARNESS-ERROR: {e}");
    }
    for u in &unmet {
        println!("[{id}] COVERAGE-FLOOR-UNMET: {u}");
    }
    for (k, v) in &main.inconclusive {
        println!("[{id}] inconclusive: {k} x{v}");
    }
    for l in &skipped_lanes {
        println!("[{id}] lane {l} skipped (binary not built)");
    }
    if !violation_lines.is_empty() {
        for (sig, path, what, n) in &violation_lines {
            println!("[{id}] violation signature {sig} x{n}: {what}");
            println!("VIOLATION property={id} replay={path}");
        }
        return 1;
    }
    if verdict == "inconclusive" {
        println!("[{id}] INCONCLUSIVE");
        return 3;
    }
    println!("[{id}] held on everything explored");
    0
}

/// Re-run the case recorded in a replay file, verbosely. Exit 1 if a violation (or crash) shows.
pub fn replay(check: &dyn Check, doc: &Value, lane: &str) -> i32 {
    install_panic_hook(false);
    let tier = Tier::parse(doc["tier"].as_str().unwrap_or("quick")).unwrap_or(Tier::Quick);
    let ctx = Ctx {
        tier,
        seed: doc["seed"].as_u64().unwrap_or(0),
        verbose: true,
        lane: lane.to_string(),
    };
    let idx = doc["idx"].as_u64().unwrap_or(0);
    println!("replaying {} case {} (tier {}, seed {})", check.id(), idx, tier.name(), ctx.seed);
    match guarded(|| check.run_case(&ctx, idx)) {
        Ok(out) => {
            if let Some(s) = &out.sample {
                println!("case: {}", serde_json::to_string_pretty(s).unwrap());
            }
            if out.violations.is_empty() {
                println!("no violation on the current tree");
                0
            } else {
                for v in &out.violations {
                    println!("violation {}: {}", v.sig, v.what);
                    println!("{}", serde_json::to_string_pretty(&v.witness).unwrap());
                }
                println!("VIOLATION property={} replay=<this file>", check.id());
                1
            }
        }
        Err((msg, loc)) => {
            println!("panic at {loc}: {msg}");
            println!("VIOLATION property={} replay=<this file>", check.id());
            1
        }
    }
}
