//! Known findings: genuine defects of the unchanged tree that are recorded rather than repaired.
//! The file is committed under /verif and never written at run time.

use serde_json::Value;

#[derive(Clone, Debug)]
pub struct Finding {
    pub property: String,
    /// exact signature, or a prefix pattern ending in '*'
    pub signature: String,
    pub what: String,
    /// "open" or "fixed:<commit>"
    pub status: String,
}

impl Finding {
    pub fn is_open(&self) -> bool {
        self.status == "open"
    }
    pub fn matches(&self, sig: &str) -> bool {
        if let Some(p) = self.signature.strip_suffix('*') {
            sig.starts_with(p)
        } else {
            sig == self.signature
        }
    }
}

pub fn load(root: &str) -> Vec<Finding> {
    // the main file plus one optional file per property under known_findings.d/
    let mut out = load_file(&format!("{root}/known_findings.json"));
    if let Ok(rd) = std::fs::read_dir(format!("{root}/known_findings.d")) {
        let mut ps: Vec<_> = rd.filter_map(|e| e.ok()).map(|e| e.path()).filter(|p| p.extension().map(|x| x == "json").unwrap_or(false)).collect();
        ps.sort();
        for p in ps {
            out.extend(load_file(&p.to_string_lossy()));
        }
    }
    out
}

fn load_file(path: &str) -> Vec<Finding> {
    let path = path.to_string();
    let Ok(text) = std::fs::read_to_string(&path) else {
        return vec![];
    };
    let v: Value = serde_json::from_str(&text)
        .unwrap_or_else(|e| panic!("harness: {path} is not valid JSON: {e}"));
    let mut out = vec![];
    if let Some(arr) = v.get("findings").and_then(|x| x.as_array()) {
        for f in arr {
            let g = |k: &str| f.get(k).and_then(|x| x.as_str()).unwrap_or("").to_string();
            out.push(Finding {
                property: g("property"),
                signature: g("signature"),
                what: g("what"),
                status: g("status"),
            });
        }
    }
    out
}
