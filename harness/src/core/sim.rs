//! Stepper: drives the real `Kanata` in virtual time (one `tick_ms(1)` at a time), drains the
//! simulated OS output after every event and every tick, and maintains the OS model (what the OS
//! believes is held down) from that output stream. Everything behavioural is observed here.

use kanata_keyberon::key_code::KeyCode;
use kanata_parser::keys::OsCode;
use kanata_state_machine::oskbd::{KeyEvent, KeyValue};
use kanata_state_machine::Kanata;
use serde_json::{json, Value};
use std::collections::BTreeSet;

pub type FileMap = rustc_hash::FxHashMap<String, String>;

/// One input step of a history.
#[derive(Clone, Debug, PartialEq, Eq)]
pub enum Ev {
    /// press of OS code
    P(u16),
    /// release
    R(u16),
    /// OS auto-repeat
    Rep(u16),
    /// KeyValue::Tap (press+release in one event; used by some input backends)
    Tap(u16),
    /// advance n ticks (1 ms each)
    T(u32),
    /// direct fake-key operation as the TCP server does it: (virtual key name, 'p'|'r'|'t'|'g')
    Fk(String, char),
}

pub fn code_name(c: u16) -> String {
    match OsCode::from_u16(c) {
        Some(osc) => format!("{:?}", KeyCode::from(osc)),
        None => format!("#{c}"),
    }
}

pub fn render_hist(h: &[Ev]) -> String {
    let mut s = String::new();
    for e in h {
        if !s.is_empty() {
            s.push(' ');
        }
        match e {
            Ev::P(c) => s.push_str(&format!("d:{}", code_name(*c))),
            Ev::R(c) => s.push_str(&format!("u:{}", code_name(*c))),
            Ev::Rep(c) => s.push_str(&format!("r:{}", code_name(*c))),
            Ev::Tap(c) => s.push_str(&format!("tap:{}", code_name(*c))),
            Ev::T(n) => s.push_str(&format!("t:{n}")),
            Ev::Fk(n, a) => s.push_str(&format!("fk:{n}:{a}")),
        }
    }
    s
}

pub fn osc(name: &str) -> u16 {
    kanata_parser::keys::str_to_oscode(name)
        .unwrap_or_else(|| panic!("harness: unknown key name {name}"))
        .as_u16()
}

#[derive(Clone, Debug, PartialEq, Eq)]
pub enum OutKind {
    /// OS auto-repeat forwarded by kanata (written while handling a Repeat input event; the
    /// recorder prints it like a press, but it does not change what the OS holds down)
    Repeat,
    Down,
    Up,
    BtnDown,
    BtnUp,
    Scroll,
    Move,
    Unicode,
    Code,
    Other,
}

#[derive(Clone, Debug, PartialEq, Eq)]
pub struct Out {
    /// number of ticks that had completed when this output appeared; outputs produced *by* tick
    /// number n (1-based) carry at == n; outputs produced while handling an input event (only key
    /// repeats) carry the number of completed ticks and in_tick == false
    pub at: u64,
    pub in_tick: bool,
    pub kind: OutKind,
    /// key / button name or payload
    pub name: String,
    /// true if this is a release of something the OS model already considers up
    pub redundant: bool,
    /// true if this is a press of a key the OS model considers down (a forwarded repeat)
    pub repress: bool,
}

impl Out {
    pub fn short(&self) -> String {
        let p = match self.kind {
            OutKind::Repeat => "⟳",
            OutKind::Down => "↓",
            OutKind::Up => "↑",
            OutKind::BtnDown => "🖰↓",
            OutKind::BtnUp => "🖰↑",
            OutKind::Scroll => "scroll:",
            OutKind::Move => "move:",
            OutKind::Unicode => "U:",
            OutKind::Code => "code:",
            OutKind::Other => "?:",
        };
        format!("{}@{}{}", format!("{p}{}", self.name), self.at, if self.in_tick { "" } else { "e" })
    }
}

fn parse_out(s: &str) -> Option<(OutKind, String)> {
    if s.starts_with("t:") && s.ends_with("ms") {
        return None;
    }
    if let Some(r) = s.strip_prefix("out:↓") {
        return Some((OutKind::Down, r.to_string()));
    }
    if let Some(r) = s.strip_prefix("out:↑") {
        return Some((OutKind::Up, r.to_string()));
    }
    if let Some(r) = s.strip_prefix("out🖰:↓") {
        return Some((OutKind::BtnDown, r.to_string()));
    }
    if let Some(r) = s.strip_prefix("out🖰:↑") {
        return Some((OutKind::BtnUp, r.to_string()));
    }
    if let Some(r) = s.strip_prefix("out🖰:move ") {
        return Some((OutKind::Move, r.to_string()));
    }
    if let Some(r) = s.strip_prefix("scroll:") {
        return Some((OutKind::Scroll, r.to_string()));
    }
    if let Some(r) = s.strip_prefix("outU:") {
        return Some((OutKind::Unicode, r.to_string()));
    }
    if let Some(r) = s.strip_prefix("out-code:") {
        return Some((OutKind::Code, r.to_string()));
    }
    Some((OutKind::Other, s.to_string()))
}

/// What the OS believes, derived only from the output stream.
#[derive(Clone, Debug, Default)]
pub struct OsModel {
    pub keys_down: BTreeSet<String>,
    pub btns_down: BTreeSet<String>,
    pub codes_down: BTreeSet<String>,
    pub redundant_releases: u64,
    pub represses: u64,
    pub repeats: u64,
    pub repeats_of_up_keys: u64,
    pub outputs: u64,
}

impl OsModel {
    pub fn all_up(&self) -> bool {
        self.keys_down.is_empty() && self.btns_down.is_empty() && self.codes_down.is_empty()
    }
    pub fn describe(&self) -> String {
        format!(
            "keys={:?} btns={:?} codes={:?}",
            self.keys_down, self.btns_down, self.codes_down
        )
    }
}

pub struct Sim {
    pub k: Kanata,
    /// ticks completed
    pub now: u64,
    pub trace: Vec<Out>,
    pub os: OsModel,
    /// keep the full trace (disable for very long runs that only need the OS model)
    pub keep_trace: bool,
    /// index into trace of the first output of the most recent step
    pub last_step_start: usize,
}

impl Sim {
    pub fn new(cfg: &str) -> Result<Sim, String> {
        Self::new_with_files(cfg, FileMap::default())
    }
    pub fn new_with_files(cfg: &str, files: FileMap) -> Result<Sim, String> {
        match Kanata::new_from_str(cfg, files) {
            Ok(k) => Ok(Self::wrap(k)),
            Err(e) => Err(format!("{e}")),
        }
    }
    /// File entry point (`Kanata::new`), the one start-up and live reload use.
    pub fn from_paths(paths: Vec<std::path::PathBuf>) -> Result<Sim, String> {
        let args = kanata_state_machine::ValidatedArgs {
            paths,
            tcp_server_address: None,
            symlink_path: None,
            nodelay: true,
        };
        match Kanata::new(&args) {
            Ok(k) => Ok(Self::wrap(k)),
            Err(e) => Err(format!("{e}")),
        }
    }
    pub fn wrap(k: Kanata) -> Sim {
        Sim {
            k,
            now: 0,
            trace: Vec::new(),
            os: OsModel::default(),
            keep_trace: true,
            last_step_start: 0,
        }
    }

    fn drain(&mut self, in_tick: bool) {
        self.last_step_start = self.trace.len();
        if self.k.kbd_out.outputs.events.is_empty() {
            return;
        }
        let evs = std::mem::take(&mut self.k.kbd_out.outputs.events);
        for s in evs {
            let Some((mut kind, name)) = parse_out(&s) else { continue };
            let mut redundant = false;
            let mut repress = false;
            if !in_tick && kind == OutKind::Down {
                // the only key output produced outside a tick is the forwarded auto-repeat
                kind = OutKind::Repeat;
            }
            match kind {
                OutKind::Repeat => {
                    self.os.repeats += 1;
                    if !self.os.keys_down.contains(&name) {
                        // repeat of a key the OS does not hold
                        repress = true;
                        self.os.repeats_of_up_keys += 1;
                    }
                }
                OutKind::Down => {
                    if !self.os.keys_down.insert(name.clone()) {
                        repress = true;
                        self.os.represses += 1;
                    }
                }
                OutKind::Up => {
                    if !self.os.keys_down.remove(&name) {
                        redundant = true;
                        self.os.redundant_releases += 1;
                    }
                }
                OutKind::BtnDown => {
                    if !self.os.btns_down.insert(name.clone()) {
                        repress = true;
                    }
                }
                OutKind::BtnUp => {
                    if !self.os.btns_down.remove(&name) {
                        redundant = true;
                        self.os.redundant_releases += 1;
                    }
                }
                OutKind::Code => {
                    // "<code>;Press" / "<code>;Release"
                    if let Some((c, v)) = name.split_once(';') {
                        if v == "Press" {
                            self.os.codes_down.insert(c.to_string());
                        } else if !self.os.codes_down.remove(c) {
                            redundant = true;
                        }
                    }
                }
                _ => {}
            }
            self.os.outputs += 1;
            if self.keep_trace {
                self.trace.push(Out {
                    at: self.now,
                    in_tick,
                    kind,
                    name,
                    redundant,
                    repress,
                });
            }
        }
        // the recorder's pretty-printing log grows without bound; it is not part of the boundary
        self.k.kbd_out.log = kanata_state_machine::oskbd::LogFmt::new();
    }

    /// outputs of the most recent step (event or tick)
    pub fn last(&self) -> &[Out] {
        &self.trace[self.last_step_start..]
    }

    pub fn event(&mut self, code: u16, value: KeyValue) {
        let Some(code) = OsCode::from_u16(code) else {
            // the OS layer only ever delivers codes it knows
            return;
        };
        self.k
            .handle_input_event(&KeyEvent { code, value })
            .expect("harness: handle_input_event returned Err (simulated output never fails)");
        self.drain(false);
    }
    pub fn press(&mut self, code: u16) {
        self.event(code, KeyValue::Press)
    }
    pub fn release(&mut self, code: u16) {
        self.event(code, KeyValue::Release)
    }
    pub fn repeat(&mut self, code: u16) {
        self.event(code, KeyValue::Repeat)
    }

    /// one millisecond
    pub fn tick(&mut self) {
        self.k
            .tick_ms(1, &None)
            .expect("harness: tick_ms returned Err (simulated output never fails)");
        self.now += 1;
        self.drain(true);
    }
    pub fn ticks(&mut self, n: u64) {
        for _ in 0..n {
            self.tick();
        }
    }

    /// fake key operation by name exactly as the TCP server performs it
    pub fn fakekey(&mut self, name: &str, action: char) -> bool {
        use kanata_parser::custom_action::FakeKeyAction as F;
        let Some(idx) = self.k.virtual_keys.get(name).copied() else {
            return false;
        };
        let a = match action {
            'p' => F::Press,
            'r' => F::Release,
            't' => F::Tap,
            _ => F::Toggle,
        };
        kanata_state_machine::handle_fakekey_action(
            a,
            self.k.layout.bm(),
            kanata_parser::cfg::FAKE_KEY_ROW,
            idx as u16,
        );
        true
    }

    pub fn apply(&mut self, e: &Ev) {
        match e {
            Ev::P(c) => self.press(*c),
            Ev::R(c) => self.release(*c),
            Ev::Rep(c) => self.repeat(*c),
            Ev::Tap(c) => self.event(*c, KeyValue::Tap),
            Ev::T(n) => self.ticks(*n as u64),
            Ev::Fk(n, a) => {
                self.fakekey(n, *a);
            }
        }
    }
    pub fn run(&mut self, h: &[Ev]) {
        for e in h {
            self.apply(e);
        }
    }

    pub fn is_idle(&self) -> bool {
        self.k.is_idle()
    }

    /// trace with redundant releases removed (an OS ignores them)
    pub fn normalized(&self) -> Vec<Out> {
        self.trace.iter().filter(|o| !o.redundant).cloned().collect()
    }
    pub fn trace_short(&self) -> Vec<String> {
        self.trace.iter().map(|o| o.short()).collect()
    }
    pub fn trace_json(&self) -> Value {
        json!(self.trace_short())
    }
}

/// Compare two traces per tick after dropping redundant releases. Returns a description of the
/// first difference.
pub fn first_diff(a: &[Out], b: &[Out]) -> Option<String> {
    let fa: Vec<&Out> = a.iter().filter(|o| !o.redundant).collect();
    let fb: Vec<&Out> = b.iter().filter(|o| !o.redundant).collect();
    for i in 0..fa.len().max(fb.len()) {
        match (fa.get(i), fb.get(i)) {
            (Some(x), Some(y)) => {
                if x.at != y.at || x.kind != y.kind || x.name != y.name || x.in_tick != y.in_tick {
                    return Some(format!("output #{i}: {} vs {}", x.short(), y.short()));
                }
            }
            (Some(x), None) => return Some(format!("output #{i}: {} vs <none>", x.short())),
            (None, Some(y)) => return Some(format!("output #{i}: <none> vs {}", y.short())),
            (None, None) => {}
        }
    }
    None
}

/// Virtual-time reproduction of the control flow of `Kanata::start_processing_loop`.
///
/// Time advances in whole milliseconds. In every non-blocked iteration with no event available the
/// real loop runs `handle_time_ticks` (one tick per elapsed ms) and sleeps 1 ms; with an event
/// available it handles the event and calls `handle_time_ticks`, which at that moment has ~0 ms to
/// account for, and loops again at once. When `can_block_update_idle_waiting` is true the loop
/// blocks on the channel; on wake-up it sets `last_tick = now - 1ms`, handles the event and ticks
/// exactly once.
pub struct LoopEmu {
    pub sim: Sim,
    pub ms_elapsed: u16,
    /// if false, never sleep: tick through every gap (the "R" run of C07)
    pub honour_block: bool,
    pub blocked_points: u64,
    pub skipped_ticks: u64,
    /// in R mode: outputs observed during a gap where the predicate said "may block"
    pub outputs_in_blocked_gap: Vec<String>,
    /// in R mode: predicate turned false again during a gap that began blocked
    pub unblocked_during_gap: u64,
}

impl LoopEmu {
    pub fn new(sim: Sim, honour_block: bool) -> Self {
        LoopEmu {
            sim,
            ms_elapsed: 0,
            honour_block,
            blocked_points: 0,
            skipped_ticks: 0,
            outputs_in_blocked_gap: vec![],
            unblocked_during_gap: 0,
        }
    }

    /// Let `gap` ms pass with no input, then deliver `ev` (if any).
    /// `plan` is, for the R run, the decision sequence L took: see `gap_then_event_follow`.
    pub fn gap_then_event(&mut self, gap: u64, ev: Option<&Ev>) -> GapInfo {
        let mut info = GapInfo::default();
        let mut left = gap;
        // iterate the loop while time remains
        loop {
            let can_block = self.sim.k.can_block_update_idle_waiting(self.ms_elapsed);
            if can_block {
                // block until the event: the remaining gap is slept through
                self.blocked_points += 1;
                info.blocked = true;
                info.slept = left;
                if self.honour_block {
                    self.skipped_ticks += left;
                } else {
                    // R: tick through the gap instead, calling the predicate like the loop does
                    let start = self.sim.trace.len();
                    for i in 0..left {
                        self.sim.tick();
                        self.ms_elapsed = 1;
                        if i + 1 < left {
                            let cb = self.sim.k.can_block_update_idle_waiting(1);
                            if !cb {
                                self.unblocked_during_gap += 1;
                            }
                        }
                    }
                    for o in &self.sim.trace[start..] {
                        self.outputs_in_blocked_gap.push(o.short());
                    }
                    // the R run must not carry a different clock than L into the continuation:
                    // L's trace has no ticks for the slept gap, so R's clock is rewound.
                    self.sim.now -= left;
                    // and outputs in the gap (already reported as a violation) are dropped
                    self.sim.trace.truncate(start);
                }
                // wake-up path
                if let Some(e) = ev {
                    self.sim.apply(e);
                    self.sim.tick();
                    self.ms_elapsed = 1;
                }
                return info;
            }
            if left == 0 {
                break;
            }
            // non-blocked, no event available: tick and sleep 1 ms
            self.sim.tick();
            self.ms_elapsed = 1;
            left -= 1;
        }
        // the event arrives while the loop is spinning
        if let Some(e) = ev {
            self.sim.apply(e);
            // handle_time_ticks right after the event accounts for ~0 ms
            self.ms_elapsed = 0;
        }
        info
    }
}

#[derive(Default, Debug, Clone)]
pub struct GapInfo {
    pub blocked: bool,
    pub slept: u64,
}
