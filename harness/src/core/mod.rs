//! Shared machinery: case/verdict types, deterministic RNG, the stepper around the real
//! `Kanata`, the multi-process runner with its crash oracle, known findings.

pub mod findings;
pub mod rng;
pub mod runner;
pub mod sim;

use serde_json::Value;
use std::collections::BTreeMap;

#[derive(Clone, Copy, Debug, PartialEq, Eq)]
pub enum Tier {
    Quick,
    Thorough,
}
impl Tier {
    pub fn name(self) -> &'static str {
        match self {
            Tier::Quick => "quick",
            Tier::Thorough => "thorough",
        }
    }
    pub fn parse(s: &str) -> Option<Tier> {
        match s {
            "quick" => Some(Tier::Quick),
            "thorough" => Some(Tier::Thorough),
            _ => None,
        }
    }
    /// pick by tier
    pub fn sel<T>(self, quick: T, thorough: T) -> T {
        match self {
            Tier::Quick => quick,
            Tier::Thorough => thorough,
        }
    }
}

#[derive(Clone, Debug)]
pub struct Ctx {
    pub tier: Tier,
    pub seed: u64,
    /// true in `replay`: checks may print traces to stderr
    pub verbose: bool,
    /// build lane this binary was compiled in ("rel", "chk", "asan", "tsan")
    pub lane: String,
}

#[derive(Clone, Debug)]
pub struct Violation {
    /// stable, narrow signature (call site / structural class); matched against known findings
    pub sig: String,
    /// one-line human description
    pub what: String,
    /// everything needed to understand it: config, history, observed, expected
    pub witness: Value,
}

/// What one case reports back.
#[derive(Clone, Debug, Default)]
pub struct CaseOut {
    /// monitor counters (summed over cases)
    pub counters: BTreeMap<String, u64>,
    /// signatures of the distinct non-trivial things this case reached (unioned over cases)
    pub tags: Vec<String>,
    /// a written-out description of the case (kept for a few cases only)
    pub sample: Option<Value>,
    pub violations: Vec<Violation>,
    /// the case could not be judged (reason); counted as inconclusive
    pub inconclusive: Option<String>,
}

impl CaseOut {
    pub fn new() -> Self {
        Self::default()
    }
    pub fn count(&mut self, name: &str, n: u64) {
        if n > 0 {
            *self.counters.entry(name.to_string()).or_insert(0) += n;
        }
    }
    pub fn inc(&mut self, name: &str) {
        self.count(name, 1)
    }
    pub fn max(&mut self, name: &str, n: u64) {
        // max-type counters are prefixed "max_" and merged with max instead of sum
        let e = self.counters.entry(format!("max_{name}")).or_insert(0);
        if n > *e {
            *e = n;
        }
    }
    pub fn tag(&mut self, sig: impl Into<String>) {
        self.tags.push(sig.into());
    }
    pub fn violate(&mut self, sig: impl Into<String>, what: impl Into<String>, witness: Value) {
        self.violations.push(Violation {
            sig: sig.into(),
            what: what.into(),
            witness,
        });
    }
    pub fn merge(&mut self, o: CaseOut) {
        for (k, v) in o.counters {
            if k.starts_with("max_") {
                let e = self.counters.entry(k).or_insert(0);
                if v > *e {
                    *e = v;
                }
            } else {
                *self.counters.entry(k).or_insert(0) += v;
            }
        }
        self.tags.extend(o.tags);
        if self.sample.is_none() {
            self.sample = o.sample;
        }
        self.violations.extend(o.violations);
        if self.inconclusive.is_none() {
            self.inconclusive = o.inconclusive;
        }
    }
}

/// A property check: a deterministic family of cases, each judged by an oracle.
pub trait Check: Sync {
    fn id(&self) -> &'static str;
    /// number of cases for this tier (seed-independent so shards are stable)
    fn n_cases(&self, ctx: &Ctx) -> u64;
    /// generate and judge case `idx`; must be a pure function of (ctx.seed, ctx.tier, idx)
    fn run_case(&self, ctx: &Ctx, idx: u64) -> CaseOut;
    /// how cases are generated and what makes one non-trivial / distinct
    fn rule(&self) -> String;
    fn assumptions(&self) -> Vec<String>;
    /// counters that must reach a minimum for the run to count as "held" (else inconclusive)
    fn floors(&self, _ctx: &Ctx) -> Vec<(&'static str, u64)> {
        vec![]
    }
    /// whether this tier enumerates some finite sub-space completely (described in rule)
    fn exhaustive(&self, _ctx: &Ctx) -> bool {
        false
    }
    /// per-case wall-clock watchdog in seconds (firing is inconclusive unless reproducible)
    fn watchdog_s(&self, _ctx: &Ctx) -> u64 {
        30
    }
    /// whether a reproducible watchdog hang is a violation of this property (C02/C03)
    fn hang_is_violation(&self) -> bool {
        false
    }
    /// case indices below this are run in every extra lane (chk/asan/...) regardless of the
    /// lane's sampling stride
    fn all_lanes_below(&self, _ctx: &Ctx) -> u64 {
        0
    }
    /// written-out description of case `idx` without running it (for crash witnesses)
    fn describe(&self, _ctx: &Ctx, _idx: u64) -> Value {
        Value::Null
    }
}
