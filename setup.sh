#!/bin/bash
# Build the harness (verdict lane) offline from files on disk.
set -e
cd "$(dirname "$0")"
./check build rel chk
