#!/bin/bash
# tools/try_patch.sh <patch.diff> <Cxx> [tier] [seed]
# Run one check against a scratch worktree of /repo with the patch applied (does not touch /repo).
# Used while other work is going on in /repo; the final confirmation of a seeded change is done
# with `git -C /repo apply` + ./check as usual.
set -e
PATCH="$(realpath "$1")"; ID="$2"; TIER="${3:-quick}"; SEED="${4:-1}"
P="${TP_PREFIX:-/tmp/lead}"; WT=$P-wt; H=$P-h; T=$P-t; R=$P-root
if [ ! -d $WT ]; then git -C /repo worktree add --detach $WT >/dev/null; fi
git -C $WT checkout -q --detach "$(git -C /repo rev-parse HEAD)"; git -C $WT checkout -- .; git -C $WT clean -fdq
git -C $WT apply "$PATCH"
SRC="${KV_HARNESS_SRC:-/verif/harness}"
mkdir -p $H $R; rsync -a --delete --exclude target "$SRC"/ $H/; sed -i "s#\"/repo#\"$WT#g" $H/Cargo.toml
cp /verif/known_findings.json $R/; rm -rf $R/known_findings.d; cp -r /verif/known_findings.d $R/ 2>/dev/null || true
LANE="${LANE:-rel}"
if [ "$LANE" = chk ]; then
  ( cd $H && CARGO_NET_OFFLINE=true CARGO_TARGET_DIR=$T RUSTFLAGS="--cfg kanata_verif" cargo build --profile chk --offline 2>&1 | grep -E "^error" -A12 | head -30 )
  BIN=$T/chk/kvmon
else
  ( cd $H && CARGO_NET_OFFLINE=true CARGO_TARGET_DIR=$T RUSTFLAGS="--cfg kanata_verif" cargo build --release --offline 2>&1 | grep -E "^error" -A12 | head -30 )
  BIN=$T/release/kvmon
fi
KV_REPO=$WT KV_ROOT=$R $BIN run "$ID" --tier "$TIER" --seed "$SEED" --lane $LANE --root $R 2>&1 | grep -E "evaluations|violation sig|VIOLATION|INCONC|held|KNOWN|HARNESS" | cut -c1-260
git -C $WT checkout -- .; git -C $WT clean -fdq
