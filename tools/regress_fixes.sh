#!/bin/bash
# tools/regress_fixes.sh [out-file]
# For every "fix:" commit in /repo: revert it in a scratch worktree (reverse patch on top of HEAD) and
# run the quick tier of the check of the property it was recorded under (known_findings.json "fixed"
# lines). Each reverted fix is a change that compiles and passes the repository's tests (they passed
# before the fix), so every check should report a VIOLATION for it. Prints one line per commit.
OUT="${1:-/tmp/regress_fixes.txt}"; : > "$OUT"
export TP_PREFIX=/tmp/regress
cd /verif
for c in $(git -C /repo log --format=%h --grep '^fix:' --reverse); do
  prop=$(grep -o "fixed: property=C[0-9]* $c" known_findings.json | head -1 | sed 's/.*property=\(C[0-9]*\).*/\1/')
  subj=$(git -C /repo log --format=%s -1 $c | cut -c1-90)
  if [ -z "$prop" ]; then echo "$c ?    no-fixed-line  $subj" >> "$OUT"; continue; fi
  git -C /repo diff $c $c^ > /tmp/regress-$c.diff
  if ! git -C /repo apply --check /tmp/regress-$c.diff 2>/dev/null; then echo "$c $prop revert-does-not-apply  $subj" >> "$OUT"; rm -f /tmp/regress-$c.diff; continue; fi
  lane=rel; case "$subj" in *saturat*|*overflowing\ u16*|*debug\ assertion*) lane=chk;; esac
  res=$(LANE=$lane tools/try_patch.sh /tmp/regress-$c.diff $prop quick 1 2>&1)
  if echo "$res" | grep -q "^VIOLATION"; then
     sig=$(echo "$res" | grep "violation signature" | head -1 | sed 's/.*violation signature \([^ ]*\) x\([0-9]*\).*/\1 x\2/')
     echo "$c $prop CAUGHT  [$sig]  $subj" >> "$OUT"
  else
     echo "$c $prop MISSED  $(echo "$res" | grep -E 'evaluations|INCONC|error' | head -1 | cut -c1-120)  $subj" >> "$OUT"
  fi
  rm -f /tmp/regress-$c.diff
done
git -C /repo worktree remove --force /tmp/regress-wt 2>/dev/null; rm -rf /tmp/regress-h /tmp/regress-t /tmp/regress-root
echo DONE >> "$OUT"
