#!/usr/bin/env python3
"""Regenerate /verif/MANIFEST.json from the table below (run after adding a check)."""
import json, os, subprocess
ROOT = os.path.dirname(os.path.dirname(os.path.abspath(__file__)))

# id -> (technique, level text, level note, design ref)
CHECKS = {
 "C01": ("end-state invariant monitor over the OS model derived from the simulated output stream + kanata's own idle predicates, after a bounded drain; grammar-generated non-latching configs x consistent histories incl. capacity-overflow stress families",
         "Exploration: ~15k (quick) / 250k (thorough) configurations x 3-6 physically consistent histories each on the real Kanata object; after the last release the processing loop's control flow is emulated until kanata may block, and the OS model must be all-up, silent and idle within 4x(sum of configured numbers)+const ticks and stay so. Capacity families (>=32 queued events, 64 states, 9 concurrent tap-holds, 16 one-shots, 4 macros, chords-v2 bursts) are required to be reached (coverage floors).",
         "Latching constructs excluded by construction; rpt-any, dynamic macros and tap-hold-except-keys inside virtual keys excluded (self-retriggering / never-timing-out by design); queue-overflowing bursts only on the plain grammar and the chords-v2 family (DESIGN.md section 6 lists the residual classes). Trusted: simulated output backend, OS model.",
         "DESIGN.md §4 C01"),
 "C03": ("crash oracle + diagnostic monitor (miette report must render; every label must be a valid range of the file it names) over structure-aware and byte-level mutants of every shipped/doc/test config and of grammar-generated configs, both parser entry points",
         "Exploration: ~70k (quick) / 2.4M (thorough) texts; the corpus block is identical for every seed. Held = no panic / stack overflow / watchdog hang / bad diagnostic on any generated text; accept/reject is not judged.",
         "Bounds: 64 KiB, depth 64; duplicate/splice not applied inside deftemplate forms (exponential by design); termination judged by a 20 s watchdog per 12 texts.",
         "DESIGN.md §4 C03"),
 "C02": ("crash oracle (panic / abort / stack-overflow / watchdog monitor) over grammar-generated accepted configs x hostile histories; overflow-checked and ASan lanes in thorough",
         "Exploration: every action kind in every placement context systematically, then thousands of random full-grammar configurations, each driven by hostile and consistent histories on the real Kanata object in worker processes whose deaths and panics are attributed to the case. Held = no crash on anything generated; no claim about configurations or histories not generated.",
         "Trusted: the simulated-output backend; the harness' process supervision. Excluded: cmd, clipboard, sleeps > 2 ms. Bounded work per step only via a wall-clock watchdog.",
         "DESIGN.md §4 C02, §3.2"),
}
BUILT = sorted(CHECKS)

props = [json.loads(l) for l in open(os.path.join(ROOT, "properties.jsonl"))]
ids = [p["id"] for p in props]
hook_commits = subprocess.run(["git", "-C", "/repo", "log", "--format=%H %s"], capture_output=True, text=True).stdout.splitlines()
hook_commits = [l.split()[0] for l in hook_commits if "verif hook" in l]

m = {
 "version": 1,
 "setup_cmd": "./setup.sh",
 "hooks": {
   "guard": "--cfg kanata_verif",
   "enable": "RUSTFLAGS='--cfg kanata_verif' (set by ./check for every lane build of /verif/harness, which depends on /repo by path)",
   "baseline_off_cmd": "cd /repo && cargo test --workspace --no-fail-fast --offline",
   "source_commits": hook_commits,
   "add_only": True,
 },
 "engines": [
   {"name": "kvmon", "path": "harness", "serves_properties": BUILT,
    "kind_free_text": "Rust harness linking the real kanata crates: deterministic case generators, stepper over the simulated OS output, reference-model / relational / invariant oracles, multi-process runner with crash oracle; lanes rel (verdict), chk (overflow checks), asan, tsan, miri"},
 ],
 "checks": [],
 "notes": "All verdicts are 'held on the executions produced'. ./check <id> <tier> honours VERIF_SEED. Exit 3 = inconclusive (never reported as violation). Known findings: known_findings.json.",
 "not_applicable": [],
}
for i in ids:
    if i in CHECKS:
        tech, text, note, ref = CHECKS[i]
        m["checks"].append({
            "property_id": i,
            "quick_cmd": f"./check {i} quick",
            "thorough_cmd": f"./check {i} thorough",
            "evidence_file": f"evidence/{i}.json",
            "replay_cmd_template": "./check replay {path}",
            "engine": "kvmon",
            "level_claimed": {"category": "exploration", "text": text, "design_ref": ref},
            "level_note": note,
            "technique": tech,
        })
    else:
        m["not_applicable"].append({"property_id": i, "reason": "check not built yet in this revision of /verif (runtime monitoring applies; see DESIGN.md §4) — not claimed until its monitor is implemented and validated"})
json.dump(m, open(os.path.join(ROOT, "MANIFEST.json"), "w"), indent=1)
print("checks:", BUILT)
