#!/usr/bin/env python3
"""Regenerate /verif/MANIFEST.json from the table below (run after adding a check)."""
import json, os, subprocess
ROOT = os.path.dirname(os.path.dirname(os.path.abspath(__file__)))

# id -> (technique, level text, level note, design ref)
CHECKS = {
 "C01": ("end-state invariant monitor over the OS model derived from the simulated output stream + kanata's own idle predicates, after a bounded drain; grammar-generated non-latching configs x consistent histories incl. capacity-overflow stress families; families for several waiting actions started by one key press and for queue eviction of a key's release",
         "Exploration: ~15k (quick) / 250k (thorough) configurations x 3-6 physically consistent histories each on the real Kanata object; after the last release the processing loop's control flow is emulated until kanata may block, and the OS model must be all-up, silent and idle within 4x(sum of configured numbers)+const ticks and stay so. Capacity families (>=32 queued events, 64 states, 9 concurrent tap-holds, 16 one-shots, 4 macros, chords-v2 bursts) are required to be reached (coverage floors).",
         "Latching constructs excluded by construction; rpt-any, dynamic macros and tap-hold-except-keys inside virtual keys excluded (self-retriggering / never-timing-out by design); queue-overflowing bursts on the plain grammar, the chords-v2 family and every second full-grammar configuration. Trusted: simulated output backend, OS model.",
         "DESIGN.md §4 C01"),
 "C03": ("crash oracle + diagnostic monitor (miette report must render; every label must be a valid range of the file it names) over (a) a seed-independent systematic hostile family: every list-action keyword x arity x argument kind, every defcfg option x boundary value, defvar reference graphs, token-wise mutation of one valid instance of every form, chord/dictionary files, lexical endings at EOF; (b) structure-aware and byte-level mutants of every shipped/doc/test config and of grammar-generated configs; both parser entry points; overflow-checked lane on a quarter of the cases, ASan lane in thorough; templates across files (position provenance), every top-level form repeated under each spelling, self-reproducing templates",
         "Exploration: ~97k (quick) / 2.4M (thorough) texts, 26k of them the systematic family that is identical for every seed. Held = no panic / stack overflow / watchdog hang / bad diagnostic on any generated text; accept/reject is not judged.",
         "Bounds: 64 KiB, depth 64; duplicate/splice not applied inside deftemplate forms (exponential by design); termination judged by a 20 s CPU watchdog per 12 texts.",
         "DESIGN.md §4 C03, §9.5"),
 "C04": ("reference model of the layered keymap (appendix E.1) driven by the generator's own config description; per-tick exact comparison of kanata's OS output with the model's",
         "Exploration with an exhaustive part: every physically consistent history of 2..6 (quick) / 2..7 (thorough) events over 3 keys with gaps {0,1,2} on 8 fixed configs (1.6M / 14M histories, seed-independent), plus 2.4k / 50k random fragment configs x 6 histories of 20-60 events incl. zero-gap bursts with up to 29 pending events.",
         "deflayermap is not combined with block-unmapped-keys (guide silent); histories are cut at the first press resolved with more held layers than the resolution stack can hold (known finding). Trusted: simulated output; the model itself (validated against the tree in prototypes).",
         "DESIGN.md §4 C04, appendix E.1"),
 "C05": ("per-tick equality with the tap-hold reference model (appendix E.2) + model-free invariants read off the OS stream (exactly one of tap/hold/timeout witness per tap-hold press, nothing overtakes a pending decision, buffered keys replayed in order), also with two or three tap-holds pending at once (defchords group of tap-holds, switch with fall-through tap-hold cases, defchordsv2 chord with a tap-hold action)",
         "Exploration with exhaustive parts: 7 variants x H x tap-repress window x concurrent-tap-hold x rapid-event-delay, every schedule up to N events over {tap-hold key, b, c} with gaps {0,1,H-1,H,H+1} (9.7M quick / 157M thorough) against the model; every schedule up to 5 events over two tap-hold units + a plain key on 28 / 130 concurrent-tap-hold configurations (4.6M / 36M) against the invariants; 4.5k / 90k random cases.",
         "Boundary conventions are those of appendix A (calibrated on the tree, detect changes of them); with several tap-holds pending the relative order of their witnesses and exact decision ticks are not judged (guide silent).",
         "DESIGN.md §4 C05, appendix E.2"),
 "C06": ("per-tick equality with the one-shot reference model (appendix E.3, generalised to key/chord/layer and to two follow-up keys) + statement-level clauses read directly off the OS stream (first follower modified iff in time, press variants: no later press modified, release variants: nothing modified after the first follower release, held one-shot acts as the plain key) + stacked one-shot histories (17-40 taps); one-shot table overfilled by re-presses (restack); non-key followers (mouse, unicode, layer, XX, macro ...)",
         "Exploration with exhaustive parts: 3 shapes x 4 end variants x T x rapid-event-delay, every schedule with gaps {0,1,T-1,T,T+1} up to N events (6.3M quick / 129M thorough); every press/release interleaving of two follow-up keys after a tapped or held one-shot (3.3M / 36M); 4.1M direct statement checks; 4k / 80k stacked histories crossing the 16-slot table.",
         "Mixed-variant stacks judged only by the variant-independent invariants (the code uses the most recent variant, the guide says the first). Non-key followers are judged in part 5 (macro followers with a leading delay only).",
         "DESIGN.md §4 C06, appendix E.3"),
 "C07": ("relational monitor on the real code: virtual-time reproduction of start_processing_loop run twice per history (L sleeps whenever can_block_update_idle_waiting allows, R ticks through every slept gap): no output inside a gap, identical timed traces; differences are attributed to the one listed known cause only by causal experiments on the real code; plus the real threaded start_processing_loop vs the stepper on time-insensitive configs (TSan lane in thorough); time-sensitive scenarios on the real thread after a real idle sleep; one-shot-pause and lt-key-timing families with causal attribution",
         "Exploration: 17 feature families (incl. zippychord re-enable / deadline countdowns) + the random non-latching grammar, ~9k (quick) / ~110k (thorough) histories with at least one blocked point, gaps from {0,1,2,3,7,T-1,T,T+1,1000,10001,70000}; 40 / 300 real-thread schedules. One cause on the current tree is a listed known finding (zippychord's 10000-tick forced reset never runs while sleeping), attributed only when the difference needs a stretch of more than 10000 slept ticks; six other causes found by this check were repaired in /repo.",
         "The emulator models one admissible schedule of the loop (integer ms, zero processing time). Real-loop cases judge order only; wall-clock trouble is inconclusive. Trusted: simulated output.",
         "DESIGN.md §4 C07, §9.3"),
 "C09": ("accounting oracle over the OS stream with private witness keys per chord and per-chord action counters (every press accounted once: own key or participant of exactly one fired chord), positive/negative scenario rules from the guide, v1 greedy-decomposition reference, release rule; every permutation of press and release order with gaps {0,1,T-1,T,T+1}, bystander keys, chords with different timeouts; delayed-start, held-over, overlapping-activations and flood families",
         "Exploration with an exhaustive part: 11 chord tables x {defchords, defchordsv2 all-released/first-release, base/disabled layer, counting}; all subsets of up to 3 keys complete (both tiers), 4-key subsets and chord+bystander sets sampled (quick) / complete (thorough), 5-key subsets sampled in thorough (~9M / ~50M scenarios); 1.2k / 6k random mixed histories; parser duplicate-set cases.",
         "Boundary conventions (v1 < T, v2 <= T) calibrated on the tree; scenarios the statement leaves open (v2 at exactly T with a press at T-1; v1 groups that start while earlier keys are still replayed; a still-possible chord with a shorter timeout expiring first) are judged by accounting only. Release slack = rapid-event-delay per fired chord + 2 x keys + 2 ticks.",
         "DESIGN.md §4 C09, §9.2"),
 "C15": ("relational monitor through the kanata_verif hooks (real handle_time_ticks / do_live_reload in virtual time, real files, real notification channel): failed reload vs inert-reload twin (identical traces, no ConfigFileReload); successful reload: deferral, notifications, first layer, nothing pressed/scrolling, exactly one reload per request, and equality with a fresh instance of the new file on the same continuation; sessions of 2-3 reload episodes; ASan lane in thorough; OS repeats after the reload, bounded progress of a pending request, key names across reloads, failed-first sessions",
         "Exploration: 16 pre-state scenarios x 5 request kinds x {valid, 6 fault kinds} over 1-3 real files with zippychord dictionaries, sequences, virtual keys, overrides and defcfg options varied between old and new file; 3k (quick) / 50k (thorough) cases incl. 640 / 9.6k multi-episode sessions. No known findings: the seven defects this check found (state surviving a reload) were repaired in /repo.",
         "One virtual ms = rewind last_tick by 1.3 ms + the real handle_time_ticks, re-run if it reports != 1 ms. Recorded dynamic macros / clipboard slots are kept on purpose and not exercised; allow-hardware-repeat / MAPPED_KEYS are read by the OS event loop and not observable here.",
         "DESIGN.md §4 C15, §3.6"),
 "C17": ("tick-exact reference model of the documented tap-dance rules (lazy and eager, incl. lists whose items are tap-holds) vs the OS stream of the real code, exhaustive event schedules over {dance key, other key}; invariants only where the statement leaves a choice; two and three tap-dance keys per configuration",
         "Exploration with an exhaustive part: lists of 1-4 actions x lazy/eager x T in {3,60} x rapid-event-delay {0,5} plus 56 configurations with tap-hold items; every schedule of up to 6 (quick) / 7-8 (thorough) events with gaps {0,1,T-1,T,T+1} (10.6M / ~435M schedules), plus systematic 1-6 tap families with interrupting keys.",
         "A press exactly T after the previous one may be counted or start a new dance (both accepted, lost is not). More presses queued in one examination than list items, and lists with layer items: invariants only.",
         "DESIGN.md §4 C17"),
 "C18": ("reference model of press/release/tap/toggle compared after every operation and on the whole OS stream, identical across seven trigger paths (direct fake-key call as the TCP server makes it, on-press, on-release, legacy forms, macro item, defseq completion); tick-exact models for hold-for-duration (two durations on one key, activations while queued behind other events) and on-idle (idle count restarted by every input event, not counting while a hold-for-duration is pending) with the blocking predicate consulted every iteration; rapid-fire operation histories (gap 0/1/2, rolled keys, back-to-back direct calls); several on-idle entries, several definition blocks, several hold-for-duration keys due in one tick",
         "Exhaustive operation histories up to N=5 (quick) / 7 (thorough) over every (virtual key, operation) pair on four virtual-key sets x seven paths (376k / ~10M histories); 257k / 4.5M timed scenarios at every distance around the durations; 78k / 1.25M queued hold-for-duration scenarios with durations 1-5; 239k / ~2M rapid-fire histories; 45k / ~400k on-idle + hold-for-duration scenarios.",
         "Operations are spaced so that each has taken effect before the next; macro virtual keys only tapped; keys that are not normal keys are held shorter than the idle duration (the guide does not say whether they keep kanata busy); no socket is opened for the TCP path.",
         "DESIGN.md §4 C18"),
 "C08": ("independent macro expander + trace checker over the OS stream projected onto each macro's private key alphabet (order, multiplicity, one step per tick, minimum delays, released at end/after cancellation at every step index, repeat restarts only while held); custom items of the macro and of keys typed meanwhile each exactly once; OS key state of modifiers shared with physical keys",
         "Exploration: 11k (quick) / 324k (thorough) cases over all eight macro variants: single, cancelled at every step index, repeating, delayed triggers, 2-4 concurrent, 5-8 concurrent (overflow), a second key with a custom action at every tick offset, a physical modifier shared with the macro released at every offset. With at most four concurrent macros everything must hold; a fifth macro cutting the oldest short is the listed known finding (documented limit), leaving its keys down is not.",
         "Group modifiers (S-(...)) may be released in any order (the guide does not fix it; chords must release in reverse). Exact tick of a custom item is not judged when another custom event competes for the tick (documented 'may need delays'). Trusted: simulated output.",
         "DESIGN.md §4 C08"),
 "C10": ("reference evaluator over the generator's own expression tree vs the real parser + Switch::actions (all truth assignments), plus end-to-end scenarios through the stepper (switch and fork witness keys) incl. history entries older than the 16-bit age counter, switches evaluated while presses are still unprocessed (tap-hold / tap-dance / chord actions, bursts) and key tests while macros hold the keys; input tests on keys of 22 action kinds",
         "Exploration with exhaustive parts: every or/and/not forest up to size 7 (quick) / 8 (thorough) over three leaf families x all 8 assignments and all break/fallthrough patterns up to 5 cases (seed-independent); random depth-8 expressions with every item kind, thresholds on every key-timing compression edge; thousands of end-to-end scenarios incl. more than 8 firing cases; 2.4k / 6k systematic + 2k / 30k random scenarios with gaps of 65530..200000 ticks before key-timing is evaluated; 6k / 80k late-evaluation scenarios (14 kinds) and 600 / 8k macro-probe scenarios.",
         "lt = age <= q(t), gt = age > q(t) with the documented quantisation; ages are known only up to 65535 (saturating), the threshold 65535 on an older entry is not judged; zero-operand operators not generated.",
         "DESIGN.md §4 C10"),
 "C11": ("exhaustive stepper run over all 749 known codes in four mapping modes with repeats; name-table cross-check in every config position against pinned tables (cross-checked with linux/input-event-codes.h); native OsCode<->KeyCode value comparison; reserved no-op codes followed through every output path (41 scenario families x nop0-nop9 with an f24 control); defsrc identity enumerated over every option combination; coordinate (0,0) inspected and driven (v2 chords, macros, code 0) on 11 232 configurations with any-key wildcards; mapped-set oracle on random configs; Miri lane (thorough) executes the real transmutes for all 768 values; built-in names redefined by deflocalkeys at every site; sequences of configurations read by one process",
         "Exhaustive over the finite code/name space (identity, names, discriminants); 20 768 (quick) / 62 304 (thorough) option x layer-shape configurations for the defsrc identity; 9k / 265k runs of the reserved-code families; 10k / 100k random configs for the mapped set.",
         "Expected exceptions are the measured ones of DESIGN.md §4 C11 (No and reserved codes silent, mouse pseudo keys as button/scroll events). arbitrary-code is not judged (the user asks for the code). The Miri lane is skipped (recorded, not failed) if cargo +nightly miri is unavailable.",
         "DESIGN.md §4 C11"),
 "C12": ("independent expansion of accepted defseq tables into typed orderings + prefix check (parser half); trace monitor with witness macros per virtual key over every ordering, every proper prefix + foreign key, T-1/T/T+1 timeouts, three input modes and three leaders (runtime half); modifier family (bare modifier keys as members, tapped / held, unrelated modifier held, sequence-backtrack-modcancel absent / yes / no) against a token model of the guide's modcancel rule; OS repeats in sequence mode; virtual-key outputs that contain typed keys held through the firing",
         "Exploration: ~60k tables parsed and ~0.9M typing scenarios (quick), 8x that in thorough; 38 fixed tables identical for every seed. Four structural classes around O-(...) groups and one about right-hand modifier keys as members are listed known findings; every other class is live.",
         "Only accepted => prefix-free is judged; tables with chorded members run with sequence-backtrack-modcancel no; bare modifiers are not sequence members; always-on + hidden-suppressed excluded.",
         "DESIGN.md §4 C12"),
 "C13": ("executable set-based spec of the statement vs Overrides::override_keys on parser-built tables (all ordered key lists up to length 3/4), plus per-tick comparison through the stepper with override-release-on-activation yes/no, layers that permute the key universe (overrides on the output codes), OS repeats, follow-up events at gap 0/1/2 behind every activation, and spacing independence (every history re-run with events 4 ticks apart); loop driver mode (ticks only while kanata may not block) with clauses judged at every block",
         "Exhaustive key lists per table (1 886 / 19 046 lists) over 256 systematic + 6 000 random tables, and 12k / 100k random histories through the full pipeline incl. 80 systematic remapped-key cases. The order-sensitivity of the implementation is the listed known finding, classified by the modifiers-first re-ordering test; every other deviation is live.",
         "On an equal-modifier-count tie either entry is accepted (the statement does not decide). Layer mappings are injective.",
         "DESIGN.md §4 C13"),
 "C14": ("invariant monitor on the OS model at every injected Repeat (at most one output, only for a key that is down) + completeness under the stated precondition with private output alphabets per key, overrides whose inputs/outputs are keys the judged cells list (incl. 2-3-link chains, modifier-only swaps, outputs held by other keys), keys in 2-4 v2 chords with disabled layers; layer-stack family with identity cells over a shared output pool",
         "Exploration: 20k (quick) / 300k (thorough) configs over every key-producing action form nested to depth 3 on 1-3 layers with overrides, held layers, switched base layer, three sequence modes; repeats injected at random points incl. pending decisions and sequence mode. Two structural classes are listed known findings (a key pressed while a hidden sequence was typed never reached the OS but is repeated afterwards - documented upstream as BUG(sequences); a modifier released by a visible-backspaced completion repeated in the same millisecond); seven other classes found by this check were repaired in /repo.",
         "override-release-on-activation yes not generated; completeness not judged for keys pressed during a pending decision; allow-hardware-repeat is an OS-layer filter and ignored.",
         "DESIGN.md §4 C14, §9.3"),
 "C16": ("metamorphic: fifteen semantically neutral rewrites (defalias, defvar atom/list/concat, variable chains in and against definition order, deftemplate with and without conditionals, templates with 2-4 parameters in every order whose arguments contain variables named like other parameters, nested conditionals, top-level forms in templates, include, platform wrap + decoy, deflayer->deflayermap) singly, as ordered pairs on the same item and composed; compare accept/reject, parsed artefacts and OS traces; 17 rewrite kinds incl. template-forward and layermap-wildcard",
         "Exploration: 11k (quick) / 81k (thorough) generated configs, ~30k rewritten variants, 2 random histories each; the first 1350 cases apply each rewrite kind singly and every ordered pair, identical for every seed.",
         "Rewrite sites restricted to where the guide promises neutrality (not in defvirtualkeys, defchords, macros). rpt-any, dynamic macros, delays and chords v2 excluded from the profile. Forward variable references are judged because the code resolves at the use site and the guide promises substitution 'wherever the variable is used'.",
         "DESIGN.md §4 C16"),
 "C19": ("relational oracle: replay output vs a twin run that types the recorded portion again (order; with recorded delays also kanata-internal timing), plus invariants (nothing down after replay, recording stops at the limit, replay ends within a bound derived from the recorded lengths) and all 512 play graphs over three macros with marker keys counting how often each macro's content is replayed; play graphs, deferred play keys recorded last",
         "Exploration: 36k (quick) / 640k (thorough) recordings: keys held across start/stop, all stop modes, truncation, re-record, nested / self / cyclic play, size limit, both delay behaviours, time-sensitive mappings. A stop key processed after later events (pending tap-hold) is the listed known finding.",
         "Control keys pressed only when no decision is pending; after a limit stop any cut in a 4-event window is accepted (implementation-defined); where a physically tapped play key lands inside a running replay is judged by upper bounds only.",
         "DESIGN.md §4 C19"),
 "C20": ("text-buffer model of the receiving application replaying the OS stream (shift/altgr state, backspace) vs the dictionary expansion, for every permutation of each entry's keys; top-level chords after completed lines; longer chords after a partial release; deadline restarts; both shifts with case-exact text, follow-up after typing, soft reset inside a hold",
         "Exploration: 5k (quick) / 40k (thorough) generated dictionaries + 45 fixed ones, ~650k entry scenarios per quick run, with none/lsft/rsft/ralt held, three smart-space settings, tails, non-chord typing and too-slow chords. Four structural classes of follow-up chords are listed known findings, each limited to the outcome its defect predicts; the erase-counter defect this check found was repaired in /repo.",
         "output-character-mappings not generated; follow-ups whose proper subset is itself a top-level chord are skipped as ambiguous in the permutation family; with shift held comparison is case-insensitive.",
         "DESIGN.md §4 C20"),
 "C02": ("crash oracle (panic / abort / stack-overflow / watchdog monitor) over grammar-generated accepted configs x hostile histories; overflow-checked lane on every 4th case in quick; overflow-checked, ASan and valgrind-memcheck lanes in thorough; press-flood and edge-code histories; switch key-matches nested to and beyond the evaluator's depth and opcode limits with short-circuit-aware histories",
         "Exploration: every action kind in every placement context systematically, then thousands of random full-grammar configurations, each driven by hostile and consistent histories on the real Kanata object in worker processes whose deaths and panics are attributed to the case. Held = no crash on anything generated; no claim about configurations or histories not generated.",
         "Trusted: the simulated-output backend; the harness' process supervision. Excluded: cmd, clipboard, sleeps > 2 ms. Bounded work per step only via a wall-clock watchdog.",
         "DESIGN.md §4 C02, §3.2"),
}
BUILT = sorted(CHECKS)

props = [json.loads(l) for l in open(os.path.join(ROOT, "properties.jsonl"))]
ids = [p["id"] for p in props]
hook_commits = subprocess.run(["git", "-C", "/repo", "log", "--format=%H %s"], capture_output=True, text=True).stdout.splitlines()
hook_commits = [l.split()[0] for l in hook_commits if "verif hook" in l]

m = {
 "version": 1,
 "setup_cmd": "./setup.sh",
 "hooks": {
   "guard": "--cfg kanata_verif",
   "enable": "RUSTFLAGS='--cfg kanata_verif' (set by ./check for every lane build of /verif/harness, which depends on /repo by path)",
   "baseline_off_cmd": "cd /repo && cargo test --workspace --no-fail-fast --offline",
   "source_commits": hook_commits,
   "add_only": True,
 },
 "engines": [
   {"name": "kvmon", "path": "harness", "serves_properties": BUILT,
    "kind_free_text": "Rust harness linking the real kanata crates: deterministic case generators, stepper over the simulated OS output, reference-model / relational / invariant oracles, multi-process runner with crash oracle; lanes rel (verdict), chk (overflow checks), asan, tsan, miri"},
 ],
 "checks": [],
 "notes": "All verdicts are 'held on the executions produced'. ./check <id> <tier> honours VERIF_SEED. Exit 3 = inconclusive (never reported as violation). Known findings: known_findings.json.",
 "not_applicable": [],
}
for i in ids:
    if i in CHECKS:
        tech, text, note, ref = CHECKS[i]
        m["checks"].append({
            "property_id": i,
            "quick_cmd": f"./check {i} quick",
            "thorough_cmd": f"./check {i} thorough",
            "evidence_file": f"evidence/{i}.json",
            "replay_cmd_template": "./check replay {path}",
            "engine": "kvmon",
            "level_claimed": {"category": "exploration", "text": text, "design_ref": ref},
            "level_note": note,
            "technique": tech,
        })
    else:
        m["not_applicable"].append({"property_id": i, "reason": "check not built yet in this revision of /verif (runtime monitoring applies; see DESIGN.md §4) — not claimed until its monitor is implemented and validated"})
json.dump(m, open(os.path.join(ROOT, "MANIFEST.json"), "w"), indent=1)
print("checks:", BUILT)
