#!/usr/bin/env python3
"""Regenerate /verif/MANIFEST.json from the table below (run after adding a check)."""
import json, os, subprocess
ROOT = os.path.dirname(os.path.dirname(os.path.abspath(__file__)))

# id -> (technique, level text, level note, design ref)
CHECKS = {
 "C01": ("end-state invariant monitor over the OS model derived from the simulated output stream + kanata's own idle predicates, after a bounded drain; grammar-generated non-latching configs x consistent histories incl. capacity-overflow stress families",
         "Exploration: ~15k (quick) / 250k (thorough) configurations x 3-6 physically consistent histories each on the real Kanata object; after the last release the processing loop's control flow is emulated until kanata may block, and the OS model must be all-up, silent and idle within 4x(sum of configured numbers)+const ticks and stay so. Capacity families (>=32 queued events, 64 states, 9 concurrent tap-holds, 16 one-shots, 4 macros, chords-v2 bursts) are required to be reached (coverage floors).",
         "Latching constructs excluded by construction; rpt-any, dynamic macros and tap-hold-except-keys inside virtual keys excluded (self-retriggering / never-timing-out by design); queue-overflowing bursts only on the plain grammar and the chords-v2 family (DESIGN.md section 6 lists the residual classes). Trusted: simulated output backend, OS model.",
         "DESIGN.md §4 C01"),
 "C03": ("crash oracle + diagnostic monitor (miette report must render; every label must be a valid range of the file it names) over structure-aware and byte-level mutants of every shipped/doc/test config and of grammar-generated configs, both parser entry points",
         "Exploration: ~70k (quick) / 2.4M (thorough) texts; the corpus block is identical for every seed. Held = no panic / stack overflow / watchdog hang / bad diagnostic on any generated text; accept/reject is not judged.",
         "Bounds: 64 KiB, depth 64; duplicate/splice not applied inside deftemplate forms (exponential by design); termination judged by a 20 s watchdog per 12 texts.",
         "DESIGN.md §4 C03"),
 "C04": ("reference model of the layered keymap (appendix E.1) driven by the generator's own config description; per-tick exact comparison of kanata's OS output with the model's",
         "Exploration with an exhaustive part: every physically consistent history of 2..6 (quick) / 2..7 (thorough) events over 3 keys with gaps {0,1,2} on 8 fixed configs (1.6M / 14M histories, seed-independent), plus 2.4k / 50k random fragment configs x 6 histories of 20-60 events incl. zero-gap bursts with up to 29 pending events.",
         "deflayermap is not combined with block-unmapped-keys (guide silent); histories are cut at the first press resolved with more held layers than the resolution stack can hold (known finding). Trusted: simulated output; the model itself (validated against the tree in prototypes).",
         "DESIGN.md §4 C04, appendix E.1"),
 "C05": ("model-free invariants (exactly one of tap/hold/timeout witness per tap-hold press, nothing overtakes a pending decision, buffered keys replayed in order) + per-tick equality with the tap-hold reference model (appendix E.2)",
         "Exploration with an exhaustive part: 7 variants x H x tap-repress window x concurrent-tap-hold x rapid-event-delay, every schedule up to N events (5/4 quick, 6/5 thorough) over {tap-hold key, b, c} with gaps {0,1,H-1,H,H+1} (9.7M / 157M schedules), plus 3k / 60k random cases with two interleaved tap-hold keys judged by the invariants only.",
         "Boundary conventions are those of appendix A (calibrated on the tree, detect changes of them); nested tap-holds and tap-hold inside multi not generated; timing with two queued tap-hold keys judged by invariants only.",
         "DESIGN.md §4 C05, appendix E.2"),
 "C06": ("per-tick equality with the one-shot reference model (appendix E.3, generalised to key/chord/layer) + statement-level invariants read directly off the OS stream on five schedule families + stacked one-shot histories (17-40 taps)",
         "Exploration with an exhaustive part: 3 shapes x 4 end variants x T x rapid-event-delay, every schedule with gaps {0,1,T-1,T,T+1} up to N events (6.3M quick / 129M thorough), 176k direct statement checks, 4k / 80k stacked histories crossing the 16-slot table.",
         "Mixed-variant stacks judged only by the variant-independent invariants (the code uses the most recent variant, the guide says the first). Plain follow-up keys are plain key codes only.",
         "DESIGN.md §4 C06, appendix E.3"),
 "C07": ("relational monitor on the real code: virtual-time reproduction of start_processing_loop run twice per history (L sleeps whenever can_block_update_idle_waiting allows, R ticks through every slept gap): no output inside a gap, identical timed traces; causal classification of differences by emulated repairs; plus the real threaded start_processing_loop vs the stepper on time-insensitive configs (TSan lane in thorough)",
         "Exploration: 16 feature families + the random non-latching grammar, ~9k (quick) / ~100k (thorough) histories with at least one blocked point, gaps from {0,1,2,3,7,T-1,T,T+1,1000,10001,70000}; 40 / 300 real-thread schedules. Five causes on the unchanged tree are listed known findings, each recognised only by the causal experiment that removes it; every other difference is live.",
         "The emulator models one admissible schedule of the loop (integer ms, zero processing time). Real-loop cases judge order only; wall-clock trouble is inconclusive. Trusted: simulated output.",
         "DESIGN.md §4 C07"),
 "C09": ("accounting oracle over the OS stream with private witness keys per chord and per-chord action counters (every press accounted once: own key or participant of exactly one fired chord), positive/negative scenario rules from the guide, v1 greedy-decomposition reference; every permutation of press and release order with gaps {0,1,T-1,T,T+1}",
         "Exploration with an exhaustive part: 8 chord tables x {defchords, defchordsv2 all-released/first-release, base/disabled layer, counting}; all subsets of up to 3 keys complete (both tiers), 4-key subsets sampled (quick) / complete (thorough), 5-key subsets sampled in thorough (~4.5M / ~35M scenarios); 1.2k / 6k random mixed histories; parser duplicate-set cases.",
         "Boundary conventions (v1 < T, v2 <= T) calibrated on the tree; scenarios the statement leaves open (v2 at exactly T with a press at T-1; v1 groups that start while earlier keys are still replayed) are judged by accounting only. Release slack = rapid-event-delay per fired chord + 2 x keys + 2 ticks.",
         "DESIGN.md §4 C09"),
 "C15": ("relational monitor through the kanata_verif hooks (real handle_time_ticks / do_live_reload in virtual time, real files, real notification channel): failed reload vs inert-reload twin (identical traces, no ConfigFileReload); successful reload: deferral, notifications, first layer, nothing pressed/scrolling, and equality with a fresh instance of the new file on the same continuation; ASan lane in thorough",
         "Exploration: 16 pre-state scenarios x 5 request kinds x {valid, 5 fault kinds} over 1-3 real files, 2.4k (quick) / 20k (thorough) cases, every fifth with back-to-back requests. Four classes of state surviving a reload on the unchanged tree are listed known findings.",
         "One virtual ms = rewind last_tick by 1.3 ms + the real handle_time_ticks, re-run if it reports != 1 ms. Recorded dynamic macros / clipboard slots are kept on purpose and not exercised; device options, includes, zippy files not varied.",
         "DESIGN.md §4 C15, §3.6"),
 "C17": ("tick-exact reference model of the documented tap-dance rules (lazy and eager) vs the OS stream of the real code, exhaustive event schedules over {dance key, other key}; invariants only where the statement leaves a choice",
         "Exploration with an exhaustive part: lists of 1-4 actions x lazy/eager x T in {3,60} x rapid-event-delay {0,5}; every schedule of up to 6 (quick) / 7-8 (thorough) events with gaps {0,1,T-1,T,T+1} (7.3M / ~100M schedules), plus a systematic 1-6 tap family with interrupting keys.",
         "A press exactly T after the previous one may be counted or start a new dance (both accepted, lost is not). More presses queued in one examination than list items, and lists with layer/tap-hold items: invariants only.",
         "DESIGN.md §4 C17"),
 "C18": ("reference model of press/release/tap/toggle compared after every operation and on the whole OS stream, identical across seven trigger paths (direct fake-key call as the TCP server makes it, on-press, on-release, legacy forms, macro item, defseq completion); tick-exact models for hold-for-duration and on-idle with the blocking predicate consulted every tick",
         "Exhaustive operation histories up to N=5 (quick) / 7 (thorough) over every (virtual key, operation) pair on four virtual-key sets x seven paths (376k / ~10M histories), 8.7k / 60k timed scenarios at every distance D-2..D+2 around the duration.",
         "Operations are spaced so that each has taken effect before the next; macro virtual keys only tapped; no socket is opened for the TCP path (the function the server calls is used).",
         "DESIGN.md §4 C18"),
 "C08": ("independent macro expander + trace checker over the OS stream projected onto each macro's private key alphabet (order, multiplicity, one step per tick, minimum delays, released at end/after cancellation at every step index, repeat restarts only while held)",
         "Exploration: 10k (quick) / 300k (thorough) cases over all eight macro variants: single, cancelled at every step index, repeating, 2-4 concurrent, and 5-8 concurrent (overflow). With at most four concurrent macros everything must hold; eviction of the oldest by a fifth macro is the listed known finding.",
         "Group modifiers (S-(...)) may be released in any order (the guide does not fix it; chords must release in reverse). One custom item per config, judged for macro / macro-repeat only. Trusted: simulated output.",
         "DESIGN.md §4 C08"),
 "C10": ("reference evaluator over the generator's own expression tree vs the real parser + Switch::actions (all truth assignments), plus end-to-end scenarios through the stepper (switch and fork witness keys)",
         "Exploration with exhaustive parts: every or/and/not forest up to size 7 (quick) / 8 (thorough) over three leaf families x all 8 assignments and all break/fallthrough patterns up to 5 cases are enumerated (seed-independent); random depth-8 expressions with every item kind, thresholds on every key-timing compression edge; thousands of end-to-end switch/fork scenarios incl. more than 8 firing cases.",
         "lt = age <= q(t), gt = age > q(t) with the documented quantisation; zero-operand operators not generated; with more than 8 firing cases only 'no non-firing case is performed' is judged.",
         "DESIGN.md §4 C10"),
 "C11": ("exhaustive stepper run over all 749 known codes in four mapping modes, name-table cross-check in every config position against pinned tables (cross-checked with linux/input-event-codes.h), native OsCode<->KeyCode value comparison, mapped-set oracle on random configs; Miri lane (thorough) executes the real transmutes for all 768 values",
         "Exhaustive over the finite code/name space (identity, names, discriminants) plus exploration for the mapped set (10k / 100k random configs).",
         "Expected exceptions are the measured ones of DESIGN.md §4 C11 (No and reserved codes silent, mouse pseudo keys as button/scroll events). Membership of codes 0/240 in the process-unmapped set is counted, not judged. The Miri lane is skipped (recorded, not failed) if cargo +nightly miri is unavailable.",
         "DESIGN.md §4 C11"),
 "C12": ("independent expansion of accepted defseq tables into typed orderings + prefix check (parser half); trace monitor with witness macros per virtual key over every ordering, every proper prefix + foreign key, T-1/T/T+1 timeouts, three input modes and three leaders (runtime half)",
         "Exploration: ~60k tables parsed and ~0.9M typing scenarios (quick), 8x that in thorough; 38 fixed tables identical for every seed. Four structural classes around O-(...) groups are listed known findings; every other class is live.",
         "Only accepted => prefix-free is judged; tables with chorded members run with sequence-backtrack-modcancel no; bare modifiers are not sequence members; always-on + hidden-suppressed excluded.",
         "DESIGN.md §4 C12"),
 "C13": ("executable set-based spec of the statement vs Overrides::override_keys on parser-built tables (all ordered key lists up to length 3/4), plus per-tick comparison through the stepper with override-release-on-activation yes/no",
         "Exhaustive key lists per table (1 886 / 19 046 lists) over 256 systematic + 6 000 random tables, and 12k / 100k random histories through the full pipeline. The order-sensitivity of the implementation is the listed known finding, classified by the modifiers-first re-ordering test; every other deviation is live.",
         "On an equal-modifier-count tie either entry is accepted (the statement does not decide).",
         "DESIGN.md §4 C13"),
 "C14": ("invariant monitor on the OS model at every injected Repeat (at most one output, only for a key that is down) + completeness under the stated precondition with private output alphabets per key",
         "Exploration: 20k (quick) / 300k (thorough) configs over every key-producing action form nested to depth 3 on 1-3 layers with overrides, held layers, switched base layer, three sequence modes; repeats injected at random points incl. pending decisions and sequence mode. Five structural classes are listed known findings.",
         "override-release-on-activation yes not generated; completeness not judged for keys pressed during a pending decision; allow-hardware-repeat is an OS-layer filter and ignored.",
         "DESIGN.md §4 C14"),
 "C16": ("metamorphic: nine semantically neutral rewrites (defalias, defvar atom/list/concat, deftemplate with and without if-equal, include, platform wrap + decoy, deflayer->deflayermap) singly and composed; compare accept/reject, parsed artefacts and OS traces",
         "Exploration: 10k (quick) / 80k (thorough) generated configs, ~26k rewritten variants, 2 random histories each; the first 360 cases apply each rewrite kind singly and are identical for every seed.",
         "Rewrite sites restricted to where the guide promises neutrality (not in defvirtualkeys, defchords, macros, strings). rpt-any, dynamic macros, delays and chords v2 excluded from the profile.",
         "DESIGN.md §4 C16"),
 "C19": ("relational oracle: replay output vs a twin run that types the recorded portion again (order; with recorded delays also kanata-internal timing), plus invariants (nothing down after replay, no self-recursion, recording stops at the limit)",
         "Exploration: 30k (quick) / 600k (thorough) recordings: keys held across start/stop, all stop modes, truncation, re-record, nested and self play, size limit, both delay behaviours, time-sensitive mappings. A stop key processed after later events (pending tap-hold) is the listed known finding.",
         "Control keys pressed only when no decision is pending; after a limit stop any cut in a 4-event window is accepted (implementation-defined).",
         "DESIGN.md §4 C19"),
 "C20": ("text-buffer model of the receiving application replaying the OS stream (shift/altgr state, backspace) vs the dictionary expansion, for every permutation of each entry's keys",
         "Exploration: 5k (quick) / 40k (thorough) generated dictionaries, ~450k entry scenarios per quick run, with none/lsft/rsft/ralt held, three smart-space settings, tails, non-chord typing and too-slow chords. Five structural classes of follow-up / superset chains are listed known findings.",
         "output-character-mappings not generated; follow-ups whose proper subset is itself a top-level chord are skipped as ambiguous; with shift held comparison is case-insensitive.",
         "DESIGN.md §4 C20"),
 "C02": ("crash oracle (panic / abort / stack-overflow / watchdog monitor) over grammar-generated accepted configs x hostile histories; overflow-checked and ASan lanes in thorough",
         "Exploration: every action kind in every placement context systematically, then thousands of random full-grammar configurations, each driven by hostile and consistent histories on the real Kanata object in worker processes whose deaths and panics are attributed to the case. Held = no crash on anything generated; no claim about configurations or histories not generated.",
         "Trusted: the simulated-output backend; the harness' process supervision. Excluded: cmd, clipboard, sleeps > 2 ms. Bounded work per step only via a wall-clock watchdog.",
         "DESIGN.md §4 C02, §3.2"),
}
BUILT = sorted(CHECKS)

props = [json.loads(l) for l in open(os.path.join(ROOT, "properties.jsonl"))]
ids = [p["id"] for p in props]
hook_commits = subprocess.run(["git", "-C", "/repo", "log", "--format=%H %s"], capture_output=True, text=True).stdout.splitlines()
hook_commits = [l.split()[0] for l in hook_commits if "verif hook" in l]

m = {
 "version": 1,
 "setup_cmd": "./setup.sh",
 "hooks": {
   "guard": "--cfg kanata_verif",
   "enable": "RUSTFLAGS='--cfg kanata_verif' (set by ./check for every lane build of /verif/harness, which depends on /repo by path)",
   "baseline_off_cmd": "cd /repo && cargo test --workspace --no-fail-fast --offline",
   "source_commits": hook_commits,
   "add_only": True,
 },
 "engines": [
   {"name": "kvmon", "path": "harness", "serves_properties": BUILT,
    "kind_free_text": "Rust harness linking the real kanata crates: deterministic case generators, stepper over the simulated OS output, reference-model / relational / invariant oracles, multi-process runner with crash oracle; lanes rel (verdict), chk (overflow checks), asan, tsan, miri"},
 ],
 "checks": [],
 "notes": "All verdicts are 'held on the executions produced'. ./check <id> <tier> honours VERIF_SEED. Exit 3 = inconclusive (never reported as violation). Known findings: known_findings.json.",
 "not_applicable": [],
}
for i in ids:
    if i in CHECKS:
        tech, text, note, ref = CHECKS[i]
        m["checks"].append({
            "property_id": i,
            "quick_cmd": f"./check {i} quick",
            "thorough_cmd": f"./check {i} thorough",
            "evidence_file": f"evidence/{i}.json",
            "replay_cmd_template": "./check replay {path}",
            "engine": "kvmon",
            "level_claimed": {"category": "exploration", "text": text, "design_ref": ref},
            "level_note": note,
            "technique": tech,
        })
    else:
        m["not_applicable"].append({"property_id": i, "reason": "check not built yet in this revision of /verif (runtime monitoring applies; see DESIGN.md §4) — not claimed until its monitor is implemented and validated"})
json.dump(m, open(os.path.join(ROOT, "MANIFEST.json"), "w"), indent=1)
print("checks:", BUILT)
