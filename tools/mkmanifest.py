#!/usr/bin/env python3
"""Regenerate /verif/MANIFEST.json from the table below (run after adding a check)."""
import json, os, subprocess
ROOT = os.path.dirname(os.path.dirname(os.path.abspath(__file__)))

# id -> (technique, level text, level note, design ref)
CHECKS = {
 "C02": ("crash oracle (panic / abort / stack-overflow / watchdog monitor) over grammar-generated accepted configs x hostile histories; overflow-checked and ASan lanes in thorough",
         "Exploration: every action kind in every placement context systematically, then thousands of random full-grammar configurations, each driven by hostile and consistent histories on the real Kanata object in worker processes whose deaths and panics are attributed to the case. Held = no crash on anything generated; no claim about configurations or histories not generated.",
         "Trusted: the simulated-output backend; the harness' process supervision. Excluded: cmd, clipboard, sleeps > 2 ms. Bounded work per step only via a wall-clock watchdog.",
         "DESIGN.md §4 C02, §3.2"),
}
BUILT = sorted(CHECKS)

props = [json.loads(l) for l in open(os.path.join(ROOT, "properties.jsonl"))]
ids = [p["id"] for p in props]
hook_commits = subprocess.run(["git", "-C", "/repo", "log", "--format=%H %s"], capture_output=True, text=True).stdout.splitlines()
hook_commits = [l.split()[0] for l in hook_commits if "verif hook" in l]

m = {
 "version": 1,
 "setup_cmd": "./setup.sh",
 "hooks": {
   "guard": "--cfg kanata_verif",
   "enable": "RUSTFLAGS='--cfg kanata_verif' (set by ./check for every lane build of /verif/harness, which depends on /repo by path)",
   "baseline_off_cmd": "cd /repo && cargo test --workspace --no-fail-fast --offline",
   "source_commits": hook_commits,
   "add_only": True,
 },
 "engines": [
   {"name": "kvmon", "path": "harness", "serves_properties": BUILT,
    "kind_free_text": "Rust harness linking the real kanata crates: deterministic case generators, stepper over the simulated OS output, reference-model / relational / invariant oracles, multi-process runner with crash oracle; lanes rel (verdict), chk (overflow checks), asan, tsan, miri"},
 ],
 "checks": [],
 "notes": "All verdicts are 'held on the executions produced'. ./check <id> <tier> honours VERIF_SEED. Exit 3 = inconclusive (never reported as violation). Known findings: known_findings.json.",
 "not_applicable": [],
}
for i in ids:
    if i in CHECKS:
        tech, text, note, ref = CHECKS[i]
        m["checks"].append({
            "property_id": i,
            "quick_cmd": f"./check {i} quick",
            "thorough_cmd": f"./check {i} thorough",
            "evidence_file": f"evidence/{i}.json",
            "replay_cmd_template": "./check replay {path}",
            "engine": "kvmon",
            "level_claimed": {"category": "exploration", "text": text, "design_ref": ref},
            "level_note": note,
            "technique": tech,
        })
    else:
        m["not_applicable"].append({"property_id": i, "reason": "check not built yet in this revision of /verif (runtime monitoring applies; see DESIGN.md §4) — not claimed until its monitor is implemented and validated"})
json.dump(m, open(os.path.join(ROOT, "MANIFEST.json"), "w"), indent=1)
print("checks:", BUILT)
