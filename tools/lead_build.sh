#!/bin/bash
# Lead-only helper while sub-agents edit checks/c04..c20: build a private copy of the harness in
# which those files are taken from git HEAD, so that their half-edited state cannot break the build.
set -e
SRC=/verif/.build/lead-src
mkdir -p $SRC
rsync -a --delete --exclude target /verif/harness/ $SRC/
cd /verif
# checks whose agents have finished are taken from the working tree (list in tools/done_checks)
DONE=" $(cat /verif/tools/done_checks 2>/dev/null | tr '\n' ' ') "
for n in 04 05 06 07 08 09 10 11 12 13 14 15 16 17 18 19 20; do
  case "$DONE" in
    *" $n "*) ;;
    *) git show 5b568fb:harness/src/checks/c$n.rs > $SRC/src/checks/c$n.rs
       # drop helper files of unfinished checks
       find $SRC/src/checks -name "c${n}_*.rs" -delete 2>/dev/null || true
       rm -rf $SRC/src/checks/c$n 2>/dev/null || true ;;
  esac
done
cd $SRC && CARGO_NET_OFFLINE=true CARGO_TARGET_DIR=/verif/.build/lead RUSTFLAGS="--cfg kanata_verif" cargo build --release --offline 2>&1 | grep -E "^error" -A12 | head -30
echo /verif/.build/lead/release/kvmon
