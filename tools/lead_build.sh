#!/bin/bash
# Lead-only helper while sub-agents edit checks/c04..c20: build a private copy of the harness in
# which those files are taken from git HEAD, so that their half-edited state cannot break the build.
set -e
SRC=/verif/.build/lead-src
mkdir -p $SRC
rsync -a --delete --exclude target /verif/harness/ $SRC/
cd /verif
for n in 04 05 06 07 08 09 10 11 12 13 14 15 16 17 18 19 20; do
  git show HEAD:harness/src/checks/c$n.rs > $SRC/src/checks/c$n.rs
done
# drop helper files agents created next to their checks
find $SRC/src/checks -name 'c*_*.rs' -delete 2>/dev/null || true
find $SRC/src/checks -mindepth 1 -type d -exec rm -rf {} + 2>/dev/null || true
cd $SRC && CARGO_NET_OFFLINE=true CARGO_TARGET_DIR=/verif/.build/lead RUSTFLAGS="--cfg kanata_verif" cargo build --release --offline 2>&1 | grep -E "^error" -A12 | head -30
echo /verif/.build/lead/release/kvmon
