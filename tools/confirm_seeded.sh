#!/bin/bash
# tools/confirm_seeded.sh <bug.diff> <demo.diff> <test-filter>  -> prints CONFIRMED or a reason
# Confirms in a scratch worktree: (1) bug alone: workspace tests pass; (2) bug+demo: demo test fails;
# (3) demo alone: demo test passes.
BUG="$(realpath "$1")"; DEMO="$(realpath "$2")"; FILTER="$3"
WT=/tmp/confirm-wt-$$
git -C /repo worktree add --detach $WT >/dev/null 2>&1
cd $WT
export CARGO_TARGET_DIR=${CONFIRM_TARGET:-/tmp/confirm-target}
ok=1
git apply "$BUG" || { echo "bug does not apply"; ok=0; }
if [ $ok = 1 ]; then
  out=$(cargo test --workspace --no-fail-fast --offline 2>&1 | grep -E "^test result|FAILED|error(\[|:)")
  echo "$out" | grep -q "FAILED\|error" && { echo "suite fails with bug:"; echo "$out" | head; ok=0; }
  passed=$(echo "$out" | grep -oE "[0-9]+ passed" | awk '{s+=$1} END {print s}')
  echo "suite with bug: $passed passed"
fi
if [ $ok = 1 ]; then
  git apply "$DEMO" || { echo "demo does not apply on top of bug"; ok=0; }
fi
if [ $ok = 1 ]; then
  out=$(cargo test --workspace --no-fail-fast --offline "$FILTER" 2>&1 | grep -E "^test result|FAILED|panicked|overflowed its stack|signal: [0-9]+|error: test failed" | head -8)
  # a demonstration that kills its test binary (stack overflow, abort) also counts as failing
  echo "$out" | grep -qE "FAILED|overflowed its stack|signal: [0-9]+" && echo "demo fails with bug: yes" || { echo "demo does NOT fail with bug"; echo "$out"; ok=0; }
  git checkout -- . ; git clean -fdq; git apply "$DEMO"
  out=$(cargo test --workspace --no-fail-fast --offline "$FILTER" 2>&1 | grep -E "^test result|FAILED" )
  echo "$out" | grep -q "FAILED" && { echo "demo fails WITHOUT bug"; ok=0; } || echo "demo passes without bug: yes ($(echo "$out" | grep -oE '[0-9]+ passed' | awk '{s+=$1} END {print s}') tests)"
fi
cd /; git -C /repo worktree remove --force $WT
[ $ok = 1 ] && echo CONFIRMED || echo NOT-CONFIRMED
