#!/bin/bash
# tools/import_seed.sh <Cxx> <seedN> <name> <test-filter> [worktree-dir]
# Copies a sub-agent's seeded change from /tmp/seed-<Cxx>/OUT into /verif/seeded/<name>/ and confirms it
# (suite passes with the change, demo fails with it, demo passes without it) in a scratch worktree.
set -e
ID="$1"; N="$2"; NAME="$3"; FILTER="$4"
SRC="${5:-/tmp/seed-$ID}/OUT"; DST=/verif/seeded/$NAME
mkdir -p $DST
cp $SRC/$N.patch.diff $DST/patch.diff; cp $SRC/$N.demo.diff $DST/demo.diff; cp $SRC/$N.desc.md $DST/desc.md
OUT=$(/verif/tools/confirm_seeded.sh $DST/patch.diff $DST/demo.diff "$FILTER" 2>&1)
echo "$OUT" | tail -6
if echo "$OUT" | grep -q "^CONFIRMED"; then
python3 - "$ID" "$NAME" "$FILTER" "$OUT" <<'PY'
import json,sys,re
pid,name,flt,out=sys.argv[1:5]
desc=open(f"/verif/seeded/{name}/desc.md").read()
m=re.search(r"suite with bug: (\d+) passed",out)
meta={"property":pid,
 "change":desc.strip().splitlines()[0].lstrip('# ').strip(),
 "needs_to_manifest":"see desc.md (written by the author of the change)",
 "demonstration":f"demo.diff adds a test to the repository's own suite (filter: {flt}); it fails with patch.diff applied and passes without it",
 "confirmed_by_lead":f"tools/confirm_seeded.sh in a scratch worktree of /repo: workspace suite with the patch alone {m.group(1) if m else '?'} passed / 0 failed; demonstration fails with the patch; demonstration passes without it",
 "author":"independent sub-agent that was given only the property text and a scratch worktree"}
json.dump(meta,open(f"/verif/seeded/{name}/meta.json","w"),indent=1)
PY
else
  echo "NOT CONFIRMED: $NAME"; 
fi
