//! C11 Miri lane. Run with `./run.sh` (cargo +nightly miri run, offline).
//!
//! For every value v in 0..=767 the value is turned into an `OsCode` and into a `KeyCode` (Miri
//! validates the discriminant: a missing variant is reported as undefined behaviour), then the
//! repository's own `From` conversions — unchecked transmutes — are executed in both directions and
//! the numeric values compared. Any renumbered or missing variant on either side ends the run with
//! a Miri error or a failed assertion; a clean run prints `MIRI-C11-OK <n>`.

use kanata_keyberon::key_code::KeyCode;
use kanata_parser::keys::OsCode;

fn main() {
    let mut n = 0u32;
    for v in 0u16..=767 {
        // OsCode side first: this is the direction the input path uses
        let osc: OsCode = unsafe { std::mem::transmute::<u16, OsCode>(v) };
        let kc: KeyCode = KeyCode::from(osc); // the real transmute in mappings.rs
        assert_eq!(kc as u16, v, "OsCode {osc:?} ({v}) became KeyCode {kc:?} ({})", kc as u16);
        // KeyCode side: the direction the output path uses
        let kc2: KeyCode = unsafe { std::mem::transmute::<u16, KeyCode>(v) };
        let osc2: OsCode = OsCode::from(kc2); // the real transmute in mappings.rs
        assert_eq!(osc2 as u16, v, "KeyCode {kc2:?} ({v}) became OsCode {osc2:?} ({})", osc2 as u16);
        assert_eq!(kc, kc2);
        assert_eq!(osc, osc2);
        // the table-driven conversions agree where they are defined
        if let Some(o) = OsCode::from_u16(v) {
            assert_eq!(o, osc, "from_u16({v})");
            assert_eq!(o.as_u16(), v, "as_u16 of {o:?}");
        }
        n += 1;
    }
    println!("MIRI-C11-OK {n}");
}
