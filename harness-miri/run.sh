#!/bin/sh
# C11 Miri lane: exits 0 and prints MIRI-C11-OK 768 when every OsCode<->KeyCode transmute is valid.
# KV_REPO=<path> runs against another checkout (a scratch copy of the crate is used then).
set -e
HERE="$(cd "$(dirname "$0")" && pwd)"
REPO="${KV_REPO:-/repo}"
export CARGO_NET_OFFLINE=true
export CARGO_TARGET_DIR="${CARGO_TARGET_DIR:-/verif/.build/miri}"
export MIRIFLAGS="-Zmiri-disable-isolation"
WORK="$HERE"
if [ "$REPO" != "/repo" ]; then
  WORK="$CARGO_TARGET_DIR/src-copy"
  rm -rf "$WORK"; mkdir -p "$WORK"
  cp -r "$HERE/Cargo.toml" "$HERE/src" "$WORK/"
  sed -i "s#\"/repo/#\"$REPO/#g" "$WORK/Cargo.toml"
fi
cp "$REPO/Cargo.lock" "$WORK/Cargo.lock"
cd "$WORK"
exec cargo +nightly miri run --offline
